"""The election case model: a JSON-able dict, its canonical BLT rendering,
validity (the profile validator's preconditions) and normalisation.

case = {
  'ncand': int, 'nseats': int,
  'names': [str]*ncand or None (default N1..),
  'withdrawn': [cid], 'undeclared': [cid],
  'tie': [cid]*ncand (a permutation) or None,
  'nicks': [str]*ncand or None,
  'ballots': [[multiplier, [[cid, ...], ...]], ...],   # ranking = list of ranks, rank = list of cids
  'rule': str, 'options': {name: value} (constructor / command-line layer),
  'file_options': [str] (tokens of a [droop ...] option) or absent,
  'title': str
}
"""
import hashlib
import json

STATUTORY = ('wigm-prf', 'wigm-prf-batch', 'meek-prf', 'scotland', 'mpls', 'cfer', 'cfer-batch', 'qpq')
GREGORY = ('wigm', 'wigm-prf', 'wigm-prf-batch', 'cfer', 'cfer-batch', 'scotland', 'mpls')
MEEK = ('meek', 'warren', 'meek-prf')
ALL_RULES = ('wigm', 'wigm-prf', 'wigm-prf-batch', 'cfer', 'cfer-batch', 'scotland', 'mpls',
             'meek', 'warren', 'meek-prf', 'qpq')


def default_names(n):
    return ['N%d' % i for i in range(1, n + 1)]


def names_of(case):
    return case.get('names') or default_names(case['ncand'])


def eligible(case):
    w = set(case.get('withdrawn') or ())
    return [c for c in range(1, case['ncand'] + 1) if c not in w]


def kept_ballots(case):
    "ballots as the profile keeps them: withdrawn removed, empty ranks and empty ballots dropped"
    w = set(case.get('withdrawn') or ())
    out = []
    for m, ranking in case['ballots']:
        r = [[c for c in rank if c not in w] for rank in ranking]
        r = [rank for rank in r if rank]
        if r:
            out.append([m, r])
    return out


def nballots(case):
    return sum(m for m, _ in kept_ballots(case))


def has_equal_ranks(case):
    return any(len(rank) > 1 for _, r in kept_ballots(case) for rank in r)


def valid(case):
    "would a correct reader accept this election? (profile.__validate's conditions + well-formedness)"
    nc, ns = case['ncand'], case['nseats']
    if nc < 1 or ns < 1:
        return False
    el = eligible(case)
    if ns > len(el):
        return False
    for key in ('withdrawn', 'undeclared'):
        v = case.get(key) or []
        if len(set(v)) != len(v) or any(not 1 <= c <= nc for c in v):
            return False
    tie = case.get('tie')
    if tie is not None and sorted(tie) != list(range(1, nc + 1)):
        return False
    for m, ranking in case['ballots']:
        if m < 1 or not ranking:
            return False
        seen = set()
        for rank in ranking:
            if not rank:
                return False
            for c in rank:
                if not 1 <= c <= nc or c in seen:
                    return False
                seen.add(c)
    if nballots(case) < len(el):
        return False
    for key in ('names', 'nicks'):
        v = case.get(key)
        if v is not None and len(v) != nc:
            return False
    return True


def render(case):
    "canonical BLT text of a case (one token layout; the randomised renderer lives in gen.py)"
    nc = case['ncand']
    out = ['%d %d' % (nc, case['nseats'])]
    if case.get('nicks'):
        out.append('[nick %s]' % ' '.join(case['nicks']))
    if case.get('tie'):
        out.append('[tie %s]' % ' '.join(str(c) for c in case['tie']))
    if case.get('undeclared'):
        out.append('[undeclared %s]' % ' '.join(str(c) for c in case['undeclared']))
    if case.get('file_options'):
        fo, k = case['file_options'], case.get('droop_split')
        if k and 0 < k < len(fo):       # several [droop ...] groups accumulate
            out.append('[droop %s]' % ' '.join(fo[:k]))
            out.append('[droop %s]' % ' '.join(fo[k:]))
        else:
            out.append('[droop %s]' % ' '.join(fo))
    if case.get('withdrawn'):
        out.append(' '.join('-%d' % c for c in case['withdrawn']))
    for m, ranking in case['ballots']:
        out.append('%d %s 0' % (m, ' '.join('='.join(str(c) for c in rank) for rank in ranking)))
    out.append('0')
    for n in names_of(case):
        out.append('"%s"' % n)
    out.append('"%s"' % case.get('title', 'T'))
    if case.get('source') is not None:
        out.append('"%s"' % case['source'])
        if case.get('comment') is not None:
            out.append('"%s"' % case['comment'])
    return '\n'.join(out) + '\n'


def canon(case):
    return json.dumps(case, sort_keys=True, separators=(',', ':'), ensure_ascii=True, default=str)


def digest(obj):
    if not isinstance(obj, str):
        obj = canon(obj)
    return hashlib.sha1(obj.encode('utf-8', 'surrogatepass')).hexdigest()[:16]


def options_for_constructor(case):
    d = dict(case.get('options') or {})
    if not case.get('rule_in_file'):       # C17: the rule may come from the ballot file's [droop ...] option alone
        d['rule'] = case['rule']
    return d
