"""PR Foundation reference WIGM (A, B.1-B.4, C, D.1-D.4), four decimal places.

d3='droop' tests "count complete" (D.3) only where droop does (top of the round; second disjunct after a B.2 batch);
d3='text' tests it at every place the text names (after B.1, after the defeats of B.2 and B.4, before their transfers)."""
from . import snap, Piles


def count(nc, ns, ballots, tie, batch=False, P=4, d3='droop'):
    S = 10 ** P
    n = sum(m for m, _ in ballots)
    quota = (n * S) // (ns + 1) + 1                                   # A.1
    hopeful = set(range(1, nc + 1))                                   # A.2
    pending, elected, defeated = [], [], []
    pl = Piles(nc, ballots, S)                                        # A.4, A.5
    vote = pl.vote
    hist = [('Q', quota)]
    rank = {c: i for i, c in enumerate(tie)}

    def sn():
        return snap(vote, pl.nt, hopeful, elected + pending, defeated)

    def complete():                                                   # D.3
        k = len(elected) + len(pending)
        return k == ns or k + len(hopeful) <= ns
    hist.append(('BEGIN', sn()))
    while not complete():                                             # A.3 / top of round
        new = [c for c in hopeful if vote[c] >= quota]                # B.1
        if new:
            for c in new:
                hopeful.discard(c)
                pending.append(c)
            hist.append(('ELECT', frozenset(new)))
        if d3 == 'text' and complete():
            break
        if batch:                                                     # B.2
            surplus = sum(vote[c] - quota for c in pending)
            hs = sorted(hopeful, key=lambda c: vote[c])
            best = []
            for k in range(1, len(hs)):
                D, rest = hs[:k], hs[k:]
                if vote[rest[0]] == vote[D[-1]]:
                    continue                                          # B.2.b
                if len(rest) < ns - len(pending) - len(elected):
                    continue                                          # B.2.a
                if sum(vote[c] for c in D) + surplus < vote[rest[0]]:
                    best = D                                          # B.2.c (largest such set)
            if best:
                for c in best:
                    hopeful.discard(c)
                    defeated.append(c)
                done = complete() if d3 == 'text' else len(hopeful) <= ns - len(pending) - len(elected)
                if done:
                    hist.append(('EXCLUDE', frozenset(best), None))
                    break
                for c in best:
                    bl = pl.take(c)
                    vote[c] = 0
                    for b in bl:
                        pl.transfer(b, hopeful)
                hist.append(('EXCLUDE', frozenset(best), sn()))
                continue
        if pending:                                                   # B.3
            mx = max(vote[c] for c in pending)
            c = min([c for c in pending if vote[c] == mx], key=lambda c: rank[c])     # D.1
            s, v = vote[c] - quota, vote[c]
            pending.remove(c)
            elected.append(c)
            for b in pl.take(c):
                b[2] = ((b[2] * s) // S) * S // v                     # D.4: truncate each multiplication and division
                pl.transfer(b, hopeful)
            vote[c] = quota
            if s:
                hist.append(('SURPLUS', c, s, sn()))
            continue
        mn = min(vote[c] for c in hopeful)                            # B.4
        c = min([c for c in hopeful if vote[c] == mn], key=lambda c: rank[c])
        hopeful.discard(c)
        defeated.append(c)
        if d3 == 'text' and complete():
            hist.append(('EXCLUDE', frozenset([c]), None))
            break
        bl = pl.take(c)
        vote[c] = 0
        for b in bl:
            pl.transfer(b, hopeful)
        hist.append(('EXCLUDE', frozenset([c]), sn()))
    elected.extend(pending)                                           # C
    del pending[:]
    if hopeful:
        if len(elected) >= ns:
            hist.append(('EXCLUDE', frozenset(hopeful), None))
            defeated.extend(hopeful)
        else:
            hist.append(('ELECT', frozenset(hopeful)))
            elected.extend(hopeful)
        hopeful.clear()
    hist.append(('FINAL', sn()))
    return hist
