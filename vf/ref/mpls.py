"""Minneapolis Code of Ordinances 167.20 / 167.70 (multiple-seat STV), four decimal places.

Switches reproduce droop where it departs from the explicit text (DESIGN section 6):
  formula_droop      transfer value trunc4(trunc4(value x surplus) / votes), as droop did before fix 7ff97b7
                     (text: trunc4(trunc4(surplus/votes) x value) - now the default)
  c_always_transfer  certain losers' votes are always transferred (text 167.70(c)(1)c: not in the final round)
  und_double         in round 2 undeclared write-ins also take part in the certain-loser search (their votes count twice)"""
from . import snap, Piles


def count(nc, ns, ballots, tie, und=(), P=4, formula_droop=False, c_always_transfer=True, und_double=True):
    S = 10 ** P
    und = set(und)
    n = sum(m for m, _ in ballots)
    quota = (n // (ns + 1) + 1) * S                                   # 167.20 Threshold
    hopeful = set(range(1, nc + 1))
    elected, defeated = [], []
    pl = Piles(nc, ballots, S)
    vote = pl.vote
    hist = [('Q', quota)]
    rank = {c: i for i, c in enumerate(tie)}

    def sn():
        return snap(vote, pl.nt, hopeful, elected, defeated)

    def left():
        return ns - len(elected)
    hist.append(('BEGIN', sn()))
    rnd = 1
    while True:
        hq = [c for c in hopeful if c not in und and vote[c] >= quota]                  # a.
        if len(elected) + len(hq) >= ns:
            if hq:
                hist.append(('ELECT', frozenset(hq)))
            for c in hq:
                hopeful.discard(c)
                elected.append(c)
            break
        rnd += 1
        surplus = sum(max(0, vote[c] - quota) for c in range(1, nc + 1) if c not in und)   # b.
        D, undv = [], 0                                                                 # c.
        if rnd == 2:
            D = [c for c in sorted(hopeful) if c in und]
            undv = sum(vote[c] for c in D)
        hs = sorted([c for c in hopeful if (und_double or c not in D)], key=lambda c: vote[c])
        maxdef = len(hopeful) - left()
        losers, acc = [], 0
        for i in range(len(hs) - 1):
            if i + 1 > maxdef:
                break
            acc += vote[hs[i]]
            if acc + surplus + undv < vote[hs[i + 1]]:
                losers = hs[:i + 1]
        for c in losers:
            if c not in D:
                D.append(c)
        if D:
            for c in D:
                hopeful.discard(c)
                defeated.append(c)
            if (not c_always_transfer) and len(hopeful) <= left():
                hist.append(('EXCLUDE', frozenset(D), None))
            else:
                for c in D:
                    bl = pl.take(c)
                    vote[c] = 0
                    for b in bl:
                        pl.transfer(b, hopeful)
                hist.append(('EXCLUDE', frozenset(D), sn()))
            continue
        hq = [c for c in hopeful if vote[c] >= quota]                                   # d.
        if hq:
            mx = max(vote[c] for c in hq)
            c = min([c for c in hq if vote[c] == mx], key=lambda c: rank[c])
            hopeful.discard(c)
            elected.append(c)
            hist.append(('ELECT', frozenset([c])))
            s, v = vote[c] - quota, vote[c]
            frac = (s * S) // v
            for b in pl.take(c):
                b[2] = ((b[2] * s) // S) * S // v if formula_droop else (frac * b[2]) // S
                pl.transfer(b, hopeful)
            vote[c] = quota
            if s:
                hist.append(('SURPLUS', c, s, sn()))
            continue
        if len(hopeful) > left():                                                       # e.
            mn = min(vote[c] for c in hopeful)
            c = min([c for c in hopeful if vote[c] == mn], key=lambda c: rank[c])
            hopeful.discard(c)
            defeated.append(c)
            if len(hopeful) > left():
                bl = pl.take(c)
                vote[c] = 0
                for b in bl:
                    pl.transfer(b, hopeful)
                hist.append(('EXCLUDE', frozenset([c]), sn()))
            else:
                hist.append(('EXCLUDE', frozenset([c]), None))                          # final round: votes retained
        if len(hopeful) <= left():                                                      # f.
            break
    if hopeful:
        if len(hopeful) <= left():
            hist.append(('ELECT', frozenset(hopeful)))
            elected.extend(hopeful)
        else:
            hist.append(('EXCLUDE', frozenset(hopeful), None))
            defeated.extend(hopeful)
        hopeful.clear()
    hist.append(('FINAL', sn()))
    return hist
