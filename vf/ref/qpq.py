"""Woodall's Quota Preferential by Quotient (2.1-2.6, with the restart after every exclusion), in guarded 9+9 decimal arithmetic.

History: ('ELECT' | 'EXCLUDE', cid, tied set, quotients, quota), ('FINAL', elected, defeated)."""


def count(nc, ns, ballots, tie, P=9, G=9, restart_defeated=False):
    S = 10 ** (P + G)
    geps = 10 ** G // 2

    def gt(a, b):
        return a - b >= geps

    def eq(a, b):
        return abs(a - b) < geps
    hopeful = set(range(1, nc + 1))                                  # 2.1
    elected, defeated = [], []
    bal = [[r, 0, 0, m] for m, r in ballots]                         # 2.2: ranking, position, candidates elected so far, count
    rank = {c: i for i, c in enumerate(tie)}
    ev = []

    def top(b):
        while b[1] < len(b[0]) and b[0][b[1]] not in hopeful:
            b[1] += 1
    restart = True
    while not (ns - len(elected) <= 0 or len(hopeful) <= ns - len(elected)):
        if restart:                                                  # after an exclusion the count starts again from scratch
            restart = False
            hopeful.update(elected)
            del elected[:]
            for b in bal:
                b[1] = 0
                b[2] = 0
                top(b)
        tx, va = 0, 0
        vc = {c: 0 for c in hopeful}
        tc = {c: 0 for c in hopeful}
        for b in bal:
            if b[1] >= len(b[0]):
                tx += b[2] * b[3]                                    # 2.4 inactive ballots
            else:
                va += b[3] * S
                c = b[0][b[1]]
                tc[c] += b[2] * b[3]
                vc[c] += b[3] * S
        q = {c: (vc[c] * S) // (S + tc[c]) for c in hopeful}         # 2.3
        quota = (va * S) // ((1 + ns) * S - tx)                      # 2.4
        hi = max(q.values())
        if gt(hi, quota):                                            # 2.5a
            tied = [c for c in hopeful if eq(q[c], hi)]
            c = min(tied, key=lambda c: rank[c])
            hopeful.discard(c)
            elected.append(c)
            nw = (S * S) // q[c]
            for b in bal:
                if b[1] < len(b[0]) and b[0][b[1]] == c:
                    b[2] = nw
                    top(b)
            ev.append(('ELECT', c, frozenset(tied), dict(q), quota))
        else:                                                        # 2.5b
            lo = min(q.values())
            tied = [c for c in hopeful if eq(q[c], lo)]
            c = min(tied, key=lambda c: rank[c])
            hopeful.discard(c)
            defeated.append(c)
            for b in bal:
                top(b)
            ev.append(('EXCLUDE', c, frozenset(tied), dict(q), quota))
            restart = True
    if len(hopeful) <= ns - len(elected):                            # 2.6
        elected.extend(hopeful)
        hopeful.clear()
    defeated.extend(hopeful)
    hopeful.clear()
    ev.append(('FINAL', frozenset(elected), frozenset(defeated)))
    return ev
