"""PR Foundation reference Meek rule (A, B.1-B.4, C, T), nine decimal places, omega = 10^-6.

History: ('ELECT', set, snap) for B.2.c elections, ('EXCLUDE', cid, status, tied set, snap) for B.3,
('ELECTREM' | 'EXCLREM', set), ('FINAL', elected, defeated, keep factors);
snap = (votes, keep factors, residual, quota, surplus)."""


def count(nc, ns, ballots, tie, P=9, OM=6, kf_round_up=True, omega_le=False):
    S = 10 ** P
    omega = S // 10 ** OM
    hopeful = set(range(1, nc + 1))
    elected, defeated = [], []
    kf = {c: S for c in range(1, nc + 1)}                            # A
    n = sum(m for m, _ in ballots)
    vote = {c: 0 for c in range(1, nc + 1)}
    rank = {c: i for i, c in enumerate(tie)}
    ev = []

    def ceilmul(a, b):
        return -((-a * b) // S)

    def ceildiv(a, b):
        return -((-a * S) // b)
    residual, quota, surplus = 0, (n * S) // (ns + 1) + 1, 0

    def sn():
        return (dict(vote), dict(kf), residual, quota, surplus)
    while len(hopeful) > ns - len(elected) > 0:                      # B.1
        last, status = n * S, 'iterate'
        while status == 'iterate':
            for c in list(hopeful) + elected:                        # B.2.a
                vote[c] = 0
            residual = 0
            for m, r in ballots:
                w, res = S, m * S
                for c in r:
                    if kf[c]:
                        k = ceilmul(w, kf[c])
                        vote[c] += k * m
                        w -= k
                        res -= k * m
                        if w <= 0:
                            break
                residual += res
            votes = sum(vote[c] for c in list(hopeful) + elected)
            quota = votes // (ns + 1) + 1                            # B.2.b
            new = [c for c in hopeful if vote[c] >= quota]           # B.2.c
            surplus = max(0, sum(vote[c] - quota for c in elected + new))       # B.2.d
            if new:
                for c in sorted(new):
                    hopeful.discard(c)
                    elected.append(c)
                ev.append(('ELECT', frozenset(new), sn()))
                status = 'elected'
                break
            if surplus < omega or (omega_le and surplus == omega):   # B.2.e (omega_le: a deliberately wrong variant, used only to search boundary elections)
                status = 'omega'
                break
            if surplus >= last:
                status = 'stable'
                break
            last = surplus
            for c in elected:                                        # B.2.f
                if kf_round_up:
                    kf[c] = ceildiv(ceilmul(kf[c], quota), vote[c])
                else:
                    kf[c] = ((kf[c] * quota) // S) * S // vote[c]
        if status == 'elected':
            continue
        mn = min(vote[c] for c in hopeful)                           # B.3
        tied = [c for c in hopeful if vote[c] <= mn + surplus]
        c = min(tied, key=lambda c: rank[c])                         # T
        hopeful.discard(c)
        defeated.append(c)
        ev.append(('EXCLUDE', c, status, frozenset(tied), sn()))
        kf[c] = 0
        vote[c] = 0
    rem = frozenset(hopeful)
    if rem:
        if len(elected) < ns:                                        # C.1
            elected.extend(sorted(rem))
            ev.append(('ELECTREM', rem))
        else:                                                        # C.2
            defeated.extend(sorted(rem))
            ev.append(('EXCLREM', rem))
            for c in rem:
                kf[c] = 0
                vote[c] = 0
        hopeful.clear()
    ev.append(('FINAL', frozenset(elected), frozenset(defeated), dict(kf)))
    return ev
