"""Reference counts for C03, written from the published procedure texts (DESIGN section 6).

Plain scaled integers and explicit '//' only; ballots are kept as piles of
[ranking, position, value, count] groups per candidate.  No droop code is imported here.

Canonical history (both sides are projected onto it):
  ('Q', quota)
  ('BEGIN', snap)
  ('ELECT', frozenset(cids))                 one election step (logging order inside a step is not statutory)
  ('SURPLUS', cid, amount, snap)             a non-zero surplus transfer and the state after it
  ('EXCLUDE', frozenset(cids), snap | None)  exclusion step; snap = state after the transfer, None if nothing is transferred
  ('FINAL', snap)
snap = (votes {cid: raw}, non-transferable raw, statuses {cid: 'h' | 'e' | 'd'})
"""


def snap(vote, nt, hopeful, elected, defeated):
    st = {}
    for c in hopeful:
        st[c] = 'h'
    for c in elected:
        st[c] = 'e'
    for c in defeated:
        st[c] = 'd'
    return (dict(vote), nt, st)


class Piles:
    "ballot groups per candidate"

    def __init__(self, nc, ballots, S):
        self.piles = {c: [] for c in range(1, nc + 1)}
        self.vote = {c: 0 for c in range(1, nc + 1)}
        self.nt = 0
        for m, r in ballots:
            self.piles[r[0]].append([r, 0, S, m])
            self.vote[r[0]] += S * m

    def transfer(self, b, continuing):
        r, pos, w, m = b
        while pos < len(r) and r[pos] not in continuing:
            pos += 1
        b[1] = pos
        if pos >= len(r):
            self.nt += w * m
        else:
            self.piles[r[pos]].append(b)
            self.vote[r[pos]] += w * m

    def take(self, c):
        bl = self.piles[c]
        self.piles[c] = []
        return bl
