"""Scottish Local Government Elections Order 2007 (SSI 2007/42) rules 45-52, five decimal places."""
from . import snap, Piles


def count(nc, ns, ballots, tie, P=5, fused=True, recent_first=True):
    S = 10 ** P
    n = sum(m for m, _ in ballots)
    quota = (n // (ns + 1) + 1) * S                                   # 46
    hopeful = set(range(1, nc + 1))
    pending, elected, defeated = [], [], []
    pl = Piles(nc, ballots, S)                                        # 45
    vote = pl.vote
    hist = [('Q', quota)]
    rank = {c: i for i, c in enumerate(tie)}
    stages = []          # tallies at the end of each stage

    def sn():
        return snap(vote, pl.nt, hopeful, elected + pending, defeated)

    def prior(tied, lowest):
        "49(2) / 51(2): the most recent preceding stage at which the tied candidates had unequal votes decides; else lot"
        order = reversed(stages) if recent_first else iter(stages)
        for st in order:
            ext = min(st[c] for c in tied) if lowest else max(st[c] for c in tied)
            ex = [c for c in tied if st[c] == ext]
            if len(ex) == 1:
                return ex[0]
        return min(tied, key=lambda c: rank[c])

    def complete():                                                   # 52(1) and all seats filled
        k = len(elected) + len(pending)
        return k >= ns or len(hopeful) <= ns - k
    hist.append(('BEGIN', sn()))
    while True:
        new = [c for c in hopeful if vote[c] >= quota]                # 47
        if new:
            for c in new:
                hopeful.discard(c)
                pending.append(c)
            hist.append(('ELECT', frozenset(new)))
        if complete():
            break                                                     # 52(2): no further transfer
        stages.append(dict(vote))
        if pending:                                                   # 48, 49
            mx = max(vote[c] for c in pending)
            tied = [c for c in pending if vote[c] == mx]
            c = tied[0] if len(tied) == 1 else prior(tied, False)
            s, v = vote[c] - quota, vote[c]
            pending.remove(c)
            elected.append(c)
            for b in pl.take(c):
                b[2] = (b[2] * s) // v if fused else ((b[2] * s) // S) * S // v      # 48(3): one calculation to five places
                pl.transfer(b, hopeful)
            vote[c] = quota
            if s:
                hist.append(('SURPLUS', c, s, sn()))
            continue
        mn = min(vote[c] for c in hopeful)                            # 50, 51
        tied = [c for c in hopeful if vote[c] == mn]
        c = tied[0] if len(tied) == 1 else prior(tied, True)
        hopeful.discard(c)
        defeated.append(c)
        bl = pl.take(c)
        vote[c] = 0
        for b in bl:
            pl.transfer(b, hopeful)                                   # 50(4): at unchanged value
        hist.append(('EXCLUDE', frozenset([c]), sn()))
        if complete():
            break
    elected.extend(pending)
    del pending[:]
    if hopeful:
        if len(hopeful) <= ns - len(elected):                         # 52(1)
            hist.append(('ELECT', frozenset(hopeful)))
            elected.extend(hopeful)
        else:
            hist.append(('EXCLUDE', frozenset(hopeful), None))
            defeated.extend(hopeful)
        hopeful.clear()
    hist.append(('FINAL', sn()))
    return hist
