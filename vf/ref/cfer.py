"""CfER draft section 10059 ("choice voting"), five decimal places.

Switches reproduce droop where it departs from the explicit text (DESIGN section 6):
  quota_droop   threshold = trunc5(n/(s+1)) + 0.00001 (text, 10059(a)(2): whole number floor(n/(s+1)) + 1)
  two_trunc     transfer value truncated after the multiplication and again after the division, as droop did before fix 1a1a7ca
                (text, (g)(2): once - now the default)"""
from . import snap, Piles


def count(nc, ns, ballots, tie, batch=False, P=5, quota_droop=True, two_trunc=False):
    S = 10 ** P
    n = sum(m for m, _ in ballots)
    quota = (n * S) // (ns + 1) + 1 if quota_droop else (n // (ns + 1) + 1) * S        # (a)(2)
    hopeful = set(range(1, nc + 1))
    pending, elected, defeated = [], [], []
    pl = Piles(nc, ballots, S)                                        # (a)(1)
    vote = pl.vote
    hist = [('Q', quota)]
    rank = {c: i for i, c in enumerate(tie)}
    used = set()

    def sn():
        return snap(vote, pl.nt, hopeful, elected + pending, defeated)
    hist.append(('BEGIN', sn()))
    rnd = 0
    while True:
        rnd += 1
        if rnd == 1 and len(hopeful) <= ns:                           # (c)
            hist.append(('ELECT', frozenset(hopeful)))
            elected.extend(hopeful)
            hopeful.clear()
            break
        new = [c for c in hopeful if vote[c] >= quota]                # (d)
        if new:
            for c in new:
                hopeful.discard(c)
                (pending if vote[c] > quota else elected).append(c)
            hist.append(('ELECT', frozenset(new)))
        if len(elected) + len(pending) >= ns:                         # (e)
            elected.extend(pending)
            del pending[:]
            if hopeful:
                hist.append(('EXCLUDE', frozenset(hopeful), None))
                defeated.extend(hopeful)
                hopeful.clear()
            break
        defeats = []
        if batch:                                                     # (f), (k)
            surplus = sum(vote[c] - quota for c in pending)
            hs = sorted(hopeful, key=lambda c: vote[c])
            nel = len(elected) + len(pending)
            top = max(vote[c] for c in hopeful)
            for k in range(1, len(hs)):
                D, rest = hs[:k], hs[k:]
                if vote[rest[0]] == vote[D[-1]]:
                    continue                                          # 10053(i): a defeat set is closed under "fewer or equal votes"
                if len(rest) + nel < ns:
                    continue                                          # (k)(1)
                tot = sum(vote[c] for c in D)
                if not tot + surplus < vote[rest[0]]:
                    continue                                          # (k)(2)
                cA = nel == ns - 1
                cB = len(rest) + nel == ns
                cC = tot + surplus < quota - top
                cD = surplus == 0 and tot - max(vote[c] for c in D) < quota - top
                if cA or cB or cC or cD:                              # (k)(3)
                    defeats = D
                    for nm, v in (('A', cA), ('B', cB), ('C', cC), ('D', cD)):
                        if v:
                            used.add(nm)
        if defeats:
            for c in defeats:
                hopeful.discard(c)
                defeated.append(c)
        elif pending:                                                 # (g)
            last = None
            for c in sorted(pending):
                s, v = vote[c] - quota, vote[c]
                for b in pl.take(c):
                    b[2] = ((b[2] * s) // S) * S // v if two_trunc else (b[2] * s) // v
                    pl.transfer(b, hopeful)
                vote[c] = quota                                       # (g)(3)
                elected.append(c)
                hist.append(('SURPLUS', c, s, None))
            del pending[:]
            hist[-1] = hist[-1][:3] + (sn(),)
            continue
        else:                                                         # (h)
            mn = min(vote[c] for c in hopeful)
            c = min([c for c in hopeful if vote[c] == mn], key=lambda c: rank[c])
            hopeful.discard(c)
            defeated.append(c)
            defeats = [c]
        if len(hopeful) + len(elected) + len(pending) <= ns:          # (i)(1)
            hist.append(('EXCLUDE', frozenset(defeats), None))
            elected.extend(pending)
            del pending[:]
            if hopeful:
                hist.append(('ELECT', frozenset(hopeful)))
                elected.extend(hopeful)
                hopeful.clear()
            break
        for c in defeats:                                             # (i)(2)
            bl = pl.take(c)
            vote[c] = 0
            for b in bl:
                pl.transfer(b, hopeful)
        hist.append(('EXCLUDE', frozenset(defeats), sn()))
    hist.append(('FINAL', sn()))
    hist.append(('USED', frozenset(used)))
    return hist
