"""Generators for the ballot-file properties (C15 round trip, C16 robustness)."""
from hypothesis import strategies as st

from . import model, gen
from .gen import D

WORDS = ['A', 'b', 'Zed', 'é', 'ß', '#x', '/*', '*/', 'x#y', '=', '[a', '(b)', '7', '0', '-1', '日本', "o'k", 'a=b', ']', '[', 'x/*y',
         'Ünï', '0x', '1=2', '(', ')', '#', '\U0001d538', 'end*/', '[tie', '-2',
         '%', '%s', '100%', '%d', '%(name)s', '{}', '{0}', '{x', '\\', '\\n', "'", '`']      # format-string and escape hazards
NICKCH = 'abcXYZ_-.:;@!$%&+~^0123456789éж'


def word(d):
    if d.p(70):
        return d.choice(WORDS)
    n = d.int(1, 6)
    return ''.join(d.choice('abcdefgXYZ0123456789#=[]()/*-éß%{}\\') for _ in range(n))


def quoted_string(d, maxwords=3):
    k = d.small(1, maxwords)
    return ' '.join(word(d) for _ in range(k))


def nickname(d, used):
    for _ in range(20):
        n = d.int(1, 5)
        s = ''.join(d.choice(NICKCH) for _ in range(n))
        if s.isdigit() or s in used or s.startswith(('-', '#')) or s[0].isdigit() and all(c.isdigit() for c in s):
            continue
        try:
            int(s)
            continue
        except ValueError:
            pass
        used.add(s)
        return s
    s = 'n%d' % len(used)
    used.add(s)
    return s


def full_case(d, tier='quick', ncand=None):
    "an election with every BLT feature switched on at random, valid by construction"
    size = gen.SIZES[tier]
    nc = ncand or d.int(1, size['maxc'])
    cands = list(range(1, nc + 1))
    wd = [c for c in cands if d.p(20)] if nc >= 2 and d.p(50) else []
    if len(wd) >= nc:
        wd = wd[:nc - 1]
    el = [c for c in cands if c not in wd]
    ns = d.int(1, len(el))
    und = [c for c in cands if d.p(15)] if d.p(30) else []
    tie = d.perm(cands) if d.p(50) else None
    use_ids = d.p(25)
    ballots = []
    nlines = d.int(1, size['maxlines'])
    for _ in range(nlines):
        k = d.small(1, min(nc, 8))
        r = [[c] for c in d.sample(cands, k)] if nc <= 40 else [[d.int(1, nc)] for _ in range(1)]
        if nc > 40:
            seen = set()
            r = []
            for _ in range(k):
                c = d.choice([1, nc, nc - 1, 255, 256, 257, d.int(1, nc)])
                if 1 <= c <= nc and c not in seen:
                    seen.add(c)
                    r.append([c])
            r = r or [[nc]]
        if d.p(25) and len(r) >= 2:
            k = min(len(r), d.choice([2, 2, 3, 4]))
            i = d.int(0, len(r) - k)
            r[i:i + k] = [[c for rank in r[i:i + k] for c in rank]]
        ballots.append([1 if use_ids else d.small(1, 9), r])
    case = dict(ncand=nc, nseats=ns, withdrawn=wd, undeclared=und, tie=tie, ballots=ballots)
    short = len(el) - model.nballots(case)
    while short > 0:
        m = 1 if use_ids else short
        ballots.append([m, [[d.choice(el)]]])
        short -= m
    case['names'] = [quoted_string(d) for _ in cands] if nc <= 40 else ['N%d' % c for c in cands]
    case['title'] = quoted_string(d)
    case['source'] = quoted_string(d) if d.p(50) else None
    case['comment'] = quoted_string(d) if case['source'] is not None and d.p(50) else None
    used = set()
    case['nicks'] = [nickname(d, used) for _ in cands] if d.p(40) and nc <= 40 else None
    case['ids'] = ['b%d' % i if d.p(70) else 'id %d x' % i for i in range(len(ballots))] if use_ids else None
    case['file_options'] = d.choice([['precision=4', 'arithmetic=fixed'], ['meek'], ['rule=wigm', 'defeat_batch=zero'], ['dump']]) if d.p(20) else None
    case['layout'] = [d.int(0, 59) for _ in range(d.int(1, 30))]
    case['bom'] = d.p(10)
    return case


def expected(case):
    "the profile a correct reader recovers from the case"
    nc = case['ncand']
    wd = set(case.get('withdrawn') or [])
    kb = model.kept_ballots(case)
    strict = [(m, [r[0] for r in rk]) for m, rk in kb if all(len(r) == 1 for r in rk)]
    equal = [(m, [list(r) for r in rk]) for m, rk in kb if any(len(r) > 1 for r in rk)]
    return dict(
        nCand=nc, nSeats=case['nseats'], title=case.get('title', 'T'), source=case.get('source'), comment=case.get('comment'),
        candidateName={c: model.names_of(case)[c - 1] for c in range(1, nc + 1)},
        candidateOrder={c: c for c in range(1, nc + 1)},
        tieOrder={c: i + 1 for i, c in enumerate(case['tie'])} if case.get('tie') else {c: c for c in range(1, nc + 1)},
        nickName={c: (case['nicks'][c - 1] if case.get('nicks') else str(c)) for c in range(1, nc + 1)},
        withdrawn=wd, undeclared=set(case.get('undeclared') or []), eligible=set(range(1, nc + 1)) - wd,
        options=list(case.get('file_options') or []),
        strict=strict, equal=equal, nBallots=sum(m for m, _ in kb),
    )
