"""Structural delta debugging on the JSON case. Deterministic, bounded by the number
of oracle calls (never by time). A step is kept only if the *same signature* persists
and the violation is still not an instance of a known finding."""
import copy

from . import model

MAX_CALLS = 1500


def election_candidates(case):
    "smaller variants of an election case, most aggressive first"
    nc = case['ncand']
    bl = case['ballots']
    # drop ballot lines
    for i in range(len(bl)):
        c = copy.deepcopy(case)
        del c['ballots'][i]
        yield c
    # remove a candidate entirely
    for cand in range(nc, 0, -1):
        c = remove_candidate(case, cand)
        if c is not None:
            yield c
    if case['nseats'] > 1:
        c = copy.deepcopy(case)
        c['nseats'] -= 1
        yield c
    for key in ('withdrawn', 'undeclared'):
        for i in range(len(case.get(key) or [])):
            c = copy.deepcopy(case)
            del c[key][i]
            yield c
    # multipliers
    for i, (m, _) in enumerate(bl):
        for m2 in (1, m // 2, m - 1):
            if 1 <= m2 < m:
                c = copy.deepcopy(case)
                c['ballots'][i][0] = m2
                yield c
    # rankings
    for i, (_, r) in enumerate(bl):
        for j in range(len(r) - 1, -1, -1):
            if len(r) > 1:
                c = copy.deepcopy(case)
                del c['ballots'][i][1][j]
                yield c
            if len(r[j]) > 1:
                for k in range(len(r[j])):
                    c = copy.deepcopy(case)
                    del c['ballots'][i][1][j][k]
                    yield c
    if case.get('tie'):
        c = copy.deepcopy(case)
        c['tie'] = None
        yield c
        if case['tie'] != sorted(case['tie']):
            c = copy.deepcopy(case)
            c['tie'] = sorted(case['tie'])
            yield c
    for k in list((case.get('options') or {}).keys()):
        c = copy.deepcopy(case)
        del c['options'][k]
        yield c
    for k, v in (case.get('options') or {}).items():
        if isinstance(v, int) and not isinstance(v, bool) and v > 0:
            for v2 in (v // 2, v - 1):
                if v2 != v:
                    c = copy.deepcopy(case)
                    c['options'][k] = v2
                    yield c
    for key in ('names', 'nicks', 'file_options', 'layout', 'comment', 'source'):
        if case.get(key):
            c = copy.deepcopy(case)
            c[key] = None
            yield c


def remove_candidate(case, cand):
    nc = case['ncand']
    if nc <= 1:
        return None
    c = copy.deepcopy(case)
    ren = lambda x: x - 1 if x > cand else x
    c['ncand'] = nc - 1
    for key in ('withdrawn', 'undeclared'):
        c[key] = [ren(x) for x in (case.get(key) or []) if x != cand]
    if case.get('tie'):
        c['tie'] = [ren(x) for x in case['tie'] if x != cand]
    for key in ('names', 'nicks'):
        if case.get(key):
            c[key] = [v for i, v in enumerate(case[key], 1) if i != cand]
    nb = []
    for m, r in case['ballots']:
        r2 = [[ren(x) for x in rank if x != cand] for rank in r]
        r2 = [rank for rank in r2 if rank]
        if r2:
            nb.append([m, r2])
    c['ballots'] = nb
    if c['nseats'] > len(model.eligible(c)):
        c['nseats'] = len(model.eligible(c))
    if c['nseats'] < 1:
        return None
    return c


def shrink(prop, case, sig, viol, findings, pid):
    from .run import match_finding
    cands = getattr(prop, 'shrink_candidates', None)
    valid = getattr(prop, 'valid_case', None)
    if cands is None:
        if isinstance(case, dict) and 'ballots' in case and 'ncand' in case:
            cands = election_candidates
            valid = valid or model.valid
        else:
            return case, viol
    calls = 0
    improved = True
    while improved and calls < MAX_CALLS:
        improved = False
        for c in cands(case):
            if calls >= MAX_CALLS:
                break
            if valid is not None and not valid(c):
                continue
            calls += 1
            try:
                res = prop.check(c)
            except Exception:      # pylint: disable=broad-except
                continue
            hit = [v for v in res.violations if v.sig == sig]
            if hit and not match_finding(findings, pid, c, hit[0].as_dict()):
                case = c
                viol = hit[0].as_dict()
                improved = True
                break
    return case, viol
