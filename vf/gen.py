"""Hypothesis strategies for election cases, rule options and BLT renderings.

Every random choice is a Hypothesis draw (class D wraps `draw`), so a run is a
pure function of the seed.
"""
from hypothesis import strategies as st

from . import model


class D:
    "thin convenience layer over a Hypothesis draw function"

    def __init__(self, draw):
        self.draw = draw

    def int(self, lo, hi):
        return self.draw(st.integers(lo, hi))

    def p(self, percent):
        "True with (roughly) the given percentage"
        return self.draw(st.integers(0, 99)) < percent

    def choice(self, seq):
        return seq[self.draw(st.integers(0, len(seq) - 1))]

    def perm(self, seq):
        return list(self.draw(st.permutations(list(seq))))

    def sample(self, seq, k):
        return self.perm(seq)[:k]

    def small(self, lo, hi):
        "integer skewed towards lo"
        a = self.int(lo, hi)
        b = self.int(lo, hi)
        return min(a, b)


SIZES = {
    'quick': dict(maxc=6, maxlines=8, bigmult=False),
    'thorough': dict(maxc=10, maxlines=16, bigmult=True),
}


def gen_ballots(d, nc, cands, maxlines, equal=False, bigmult=False, nseats=1):
    """a mixture of ballot shapes (DESIGN section 3): parties, mirrored pairs, quota landing,
    bullet votes, short ballots, uniform partial rankings"""
    ballots = []
    nlines = d.int(1, maxlines) if d.p(15) else d.int(min(3, maxlines), maxlines)

    def mult():
        if bigmult and d.p(5):
            return 10 ** d.int(3, 12) + d.int(0, 9)
        return d.small(1, 6)

    mode = d.int(0, 9)
    parties = []
    if mode <= 3 and nc >= 3:
        pool = d.perm(cands)
        k = d.int(1, min(3, nc))
        cuts = sorted(d.sample(range(1, nc), min(k - 1, nc - 1))) if k > 1 else []
        prev = 0
        for c in cuts + [nc]:
            if pool[prev:c]:
                parties.append(pool[prev:c])
            prev = c
    leaders = d.sample(cands, min(nc, max(1, nseats))) if d.p(55) else []
    while len(ballots) < nlines:
        t = d.int(0, 9)
        if leaders and t <= 5 and not parties:
            # concentrated first preferences: leaders collect surpluses that then chain through the same ballots
            ld = d.choice(leaders)
            rest = [c for c in cands if c != ld]
            r = [ld] + d.sample(rest, d.int(0, len(rest)))
            ballots.append([mult() + d.int(0, 4), [[c] for c in r]])
        elif parties and t <= 4:
            party = d.choice(parties)
            r = d.perm(party)
            if d.p(50):
                rest = [c for c in cands if c not in party]
                r += d.sample(rest, d.int(0, len(rest)))
            elif d.p(30):
                r = r[:d.int(1, len(r))]
            ballots.append([mult(), [[c] for c in r]])
        elif t <= 6 and nc >= 2:
            # mirrored pair: exact ties
            k = d.int(1, nc)
            r = d.sample(cands, k)
            m = mult()
            x, y = d.sample(cands, 2)
            sw = {x: y, y: x}
            ballots.append([m, [[c] for c in r]])
            ballots.append([m, [[sw.get(c, c)] for c in r]])
        elif t == 7:
            # bullet votes / short ballots
            ballots.append([mult(), [[d.choice(cands)]]])
        else:
            k = d.small(1, nc)
            r = d.sample(cands, k)
            ballots.append([mult(), [[c] for c in r]])
    if equal:
        for b in ballots:
            if len(b[1]) >= 2 and d.p(35):
                k = min(len(b[1]), d.choice([2, 2, 3, 3, 4]))      # 1/3 and 1/7 do not terminate: shares get truncated
                i = d.int(0, len(b[1]) - k)
                b[1][i:i + k] = [[c for rank in b[1][i:i + k] for c in rank]]
    if mode in (4, 5):
        # quota landing: make the total a multiple of seats+1 and give one candidate exactly
        # the Droop quotient (or one more) in first preferences
        if d.p(30):
            # a large electorate of the same shape: a winner one or two votes above a quota of 10^3..10^7 has a transfer
            # value below the last decimal place (values truncate to exactly zero, narrow surpluses chain)
            K = 10 ** d.int(2, 6)
            for b in ballots:
                b[0] *= K
        tot = sum(m for m, _ in ballots)
        s1 = nseats + 1
        pad = (-tot) % s1
        tot += pad
        c = d.choice(cands)
        have = sum(m for m, r in ballots if r[0] == [c])
        want = tot // s1 + d.choice([0, 1, 1, 2, 3])
        if pad:
            ballots.append([pad, [[x] for x in d.sample(cands, d.int(1, nc))]])
        if want > have:
            # move the deficit in by adding ballots for c and removing nothing: re-pad others
            add = want - have
            ballots.append([add, [[c]] + [[x] for x in d.sample([y for y in cands if y != c],
                                                                 d.int(0, nc - 1))]])
            pad2 = (-(tot + add)) % s1
            if pad2:
                others = [y for y in cands if y != c] or [c]
                ballots.append([pad2, [[d.choice(others)]]])
    return ballots


def election_core(d, size, equal=False, undeclared=False, withdrawn=True, min_cand=1, names='plain', chains=False):
    nc = max(min_cand, d.int(1, size['maxc']) if d.p(12) else d.int(min(3, size['maxc']), size['maxc']))
    cands = list(range(1, nc + 1))
    wd = []
    if withdrawn and nc >= 2 and d.p(25):
        wd = [c for c in cands if d.p(25)]
        if len(wd) >= nc:
            wd = wd[:nc - 1]
    el = [c for c in cands if c not in wd]
    ns = d.int(1, max(1, len(el) - 2)) if d.p(75) else d.int(1, len(el))
    if chains and len(el) >= 4 and d.p(70):
        ns = d.int(2, len(el) - 2)     # several winners with surpluses that pass through the same ballots
    und = []
    if undeclared and d.p(40):
        und = [c for c in cands if d.p(30)]
    tie = d.perm(cands) if d.p(80) else None
    ballots = gen_ballots(d, nc, cands, size['maxlines'], equal=equal, bigmult=size['bigmult'], nseats=ns)
    case = dict(ncand=nc, nseats=ns, withdrawn=wd, undeclared=und, tie=tie, ballots=ballots, title='T')
    # pad so that the validator's ballot-count precondition holds
    short = len(el) - model.nballots(case)
    if short > 0:
        ballots.append([short, [[d.choice(el)]]])
    if names == 'plain':
        case['names'] = None
    if d.p(8):
        case['nicks'] = ['k%s%d' % (d.choice('abxyz'), i) for i in range(1, nc + 1)]      # Candidate.nick != str(cid)
    if d.p(12):
        case['source'] = d.choice(['the source', 'src', 'S 1'])
        if d.p(50):
            case['comment'] = d.choice(['a comment', 'c', 'note 2'])
    return case


def wigm_options(d):
    a = d.int(0, 9)
    o = {}
    if a <= 3:
        o['arithmetic'] = 'fixed'
        if d.p(80):
            o['precision'] = d.int(0, 12)
    elif a == 4:
        o['arithmetic'] = 'integer'
        if d.p(30):
            o['precision'] = d.int(0, 6)        # forced to 0 by the arithmetic whatever is asked
    elif a <= 6:
        o['arithmetic'] = 'rational'
    else:
        if d.p(70):
            o['arithmetic'] = 'guarded'
        if d.p(70):
            o['precision'] = d.int(0, 3) if d.p(30) else d.int(0, 20)     # few digits: tallies below the tolerance occur
            if d.p(70):
                o['guard'] = d.int(0, 12)
    if d.p(25):
        o['integer_quota'] = d.p(70)
    if d.p(30):
        o['defeat_batch'] = 'zero' if d.p(80) else 'none'
    if d.p(15):
        o['display'] = d.int(0, 2) if d.p(40) else d.int(0, 24)      # presentation only: must not reach the count
    return o


def meek_options(d, stratum='S1', rational=True):
    """S1 "supported": omega within the rule's own default for the arithmetic
    (guarded: omega <= p//2, guard >= p//2; fixed: omega <= 2p//3; both p >= 3 - the guarded p = 2 drawn here is classified S2 by C08.in_S1);
    S2 "free": any precision >= 1, guard >= 0, omega 0..p and (20 %) finer than the arithmetic resolves."""
    a = d.int(0, 9)
    o = {}
    if a <= 3:
        o['arithmetic'] = 'fixed'
        if stratum == 'S1':
            if d.p(70):
                p = d.int(3, 12)
                o['precision'] = p
            else:
                p = 9
            if d.p(70):
                o['omega'] = d.int(0, p * 2 // 3)
        else:
            p = d.int(1, 12)
            o['precision'] = p
            o['omega'] = d.int(0, p) if d.p(80) else d.int(p + 1, p + 3)      # finer than the arithmetic: omega truncates to 0
    elif a <= 5 and rational:
        o['arithmetic'] = 'rational'
        if d.p(60):
            o['omega'] = d.int(0, 12)
    else:
        if d.p(60):
            o['arithmetic'] = 'guarded'
        if stratum == 'S1':
            if d.p(70):
                p = d.int(2, 18)
                o['precision'] = p
                if d.p(60):
                    o['guard'] = d.int((p + 1) // 2, p + 3)
            else:
                p = 18
            if d.p(70):
                o['omega'] = d.int(0, p // 2)
        else:
            p = d.int(1, 18)
            o['precision'] = p
            o['guard'] = d.int(0, 9)
            o['omega'] = d.int(0, p) if d.p(80) else d.int(p + 1, p + o['guard'] + 2)
    if d.p(30):
        o['defeat_batch'] = 'none' if d.p(70) else 'safe'
    if d.p(10):
        o['display'] = d.int(0, 2) if d.p(40) else d.int(0, 24)
    return o


def rule_options(d, rule, stratum='S1', rational=True):
    if rule == 'wigm':
        return wigm_options(d)
    if rule in ('meek', 'warren'):
        return meek_options(d, stratum, rational)
    return {}


@st.composite
def election_cases(draw, tier='quick', rules=model.ALL_RULES, equal_for_meek=False,
                   undeclared_for_mpls=True, stratum='S1', withdrawn=True, rational=True,
                   min_cand=1, default_options=False, chains=False):
    d = D(draw)
    rule = d.choice(list(rules))
    size = SIZES[tier]
    case = election_core(d, size,
                         equal=equal_for_meek and rule in ('meek', 'warren') and d.p(50),
                         undeclared=undeclared_for_mpls and (rule == 'mpls' or d.p(12)),    # only mpls gives the flag a meaning; the others must ignore it
                         withdrawn=withdrawn, min_cand=min_cand, chains=chains)
    case['rule'] = rule
    case['options'] = {} if default_options else rule_options(d, rule, stratum, rational)
    return case


def scotland_prior_stage_case(d):
    """a template whose exclusion tie is decided by an earlier stage, and where the earliest and the most
    recent differing stage disagree: X < Y at stage 1, X > Y after Z1's exclusion, X == Y after Z2's."""
    a = d.int(4, 9)
    ids = d.perm(range(1, 7))
    X, Y, Z1, Z2, B1, B2 = ids
    k = d.int(1, 3)                      # size of the first-stage gap
    ballots = [[a, [[X]]], [a + k, [[Y]]],
               [2 * k, [[Z1], [X]]],
               [k, [[Z2], [Y]]], [k + 2, [[Z2], [B1]]],
               [a + 3 * k + 4, [[B1]]], [a + 3 * k + 4, [[B2]]]]
    if d.p(50):
        ballots = d.perm(ballots)
    return dict(ncand=6, nseats=1, withdrawn=[], undeclared=[], tie=d.perm(range(1, 7)), ballots=ballots, title='T',
                names=None, rule='scotland', options={})


# ---------------------------------------------------------------------------- randomised BLT renderer

class Choices:
    "a replayable stream of small integers (stored in the case, so that layouts shrink and replay)"

    def __init__(self, seq):
        self.seq = list(seq) or [0]
        self.i = 0

    def next(self, n):
        v = self.seq[self.i % len(self.seq)]
        self.i += 1
        return v % n


SEPS = [' ', ' ', '\n', '\t', '  ', '\r\n', ' \n ', ' # note\n', ' /* c */ ', '\n/* a /* nested */ b */\n',
        ' #\n', ' /* 1 2 0 */ ', ' # "q" [x] (y) -1\n', ' /*x*/ ', '\n\n',
        ' /* "q" */ ', ' /* say "hi there */ ', '\n/* "a */\n', ' # "unbalanced\n',
        ' /* see #12 */ ', ' /* # */ ', '\n/* a #b /* #c */ d */\n',
        '\r', ' # cr ends the comment\r', '\r/* x */\r', ' # crlf\r\n']     # bare CR is a line break too (classic Mac files)
QSEPS = [' ', ' ', '\t', '\n', '  ', '\r\n', '\r']      # inside a quoted string only white space may vary


def quoted_tokens(s):
    "a quoted string as the list of white-space separated tokens the tokenizer will see"
    return ('"%s"' % s).split(' ')


def render_layout(case, choices):
    """BLT text of a case under a layout drawn from `choices` (a list of ints).
    Honours case['nicks'] (nicknames may replace numbers anywhere a candidate is referenced),
    case['ids'] (ballot ids instead of multipliers; requires all multipliers == 1),
    case['source'], case['comment'], case['file_options']."""
    ch = Choices(choices)
    nc = case['ncand']
    nicks = case.get('nicks')
    out = []        # (token, inside_quote_continuation)

    numeric = [False]       # options written before [nick ...] can only use numbers

    def cand(c):
        if nicks and not numeric[0] and ch.next(3) != 0:
            return nicks[c - 1]
        return str(c)

    def tok(t):
        out.append((t, False))

    def option(name, items):
        if ch.next(2):
            tok('[' + name)
            for it in items[:-1]:
                tok(it)
            tok(items[-1] + ']')
        else:
            tok('[' + name)
            for it in items:
                tok(it)
            tok(']')

    tok(str(nc))
    tok(str(case['nseats']))
    wd = list(case.get('withdrawn') or [])
    minus = [c for c in wd if ch.next(2)]
    wopt = [c for c in wd if c not in minus]
    opts = []
    if case.get('tie'):
        opts.append(('tie', lambda: [cand(c) for c in case['tie']]))
    if case.get('undeclared'):
        opts.append(('undeclared', lambda: [cand(c) for c in case['undeclared']]))
    if wopt:
        opts.append(('withdrawn', lambda: [cand(c) for c in wopt]))
    if case.get('file_options'):
        opts.append(('droop', lambda: list(case['file_options'])))
    # [nick ...] must come before any use of a nickname - an option written with numbers may precede it
    if nicks:
        if opts and ch.next(3) == 0:
            name, items = opts.pop(ch.next(len(opts)))
            numeric[0] = True
            option(name, items())
            numeric[0] = False
        option('nick', list(nicks))
    k = ch.next(max(1, len(opts)))
    opts = opts[k:] + opts[:k]
    minus_first = ch.next(2)            # '-n' withdrawals may come before or after the bracketed options
    if minus_first:
        for c in minus:
            tok('-%d' % c)
    for name, items in opts:
        its = items()
        if name in ('withdrawn', 'undeclared', 'droop') and len(its) >= 2 and ch.next(2):
            option(name, its[:1])       # the same option may be given more than once ([droop ...] groups accumulate)
            option(name, its[1:])
        else:
            option(name, its)
    if not minus_first:
        for c in minus:
            tok('-%d' % c)
    ids = case.get('ids')
    for i, (m, ranking) in enumerate(case['ballots']):
        if ids:
            for j, t in enumerate(('(%s)' % ids[i]).split(' ')):
                out.append((t, j > 0))
        else:
            tok(str(m))
        for rank in ranking:
            tok('='.join(cand(c) for c in rank))
        tok('0')
    tok('0')
    strings = list(case.get('names') or ['N%d' % i for i in range(1, nc + 1)]) + [case.get('title', 'T')]
    if case.get('source') is not None:
        strings.append(case['source'])
        if case.get('comment') is not None:
            strings.append(case['comment'])
    for s in strings:
        for j, t in enumerate(quoted_tokens(s)):
            out.append((t, j > 0))
    text = []
    for i, (t, cont) in enumerate(out):
        if i:
            text.append(QSEPS[ch.next(len(QSEPS))] if cont else SEPS[ch.next(len(SEPS))])
        text.append(t)
    text.append(['', '\n', ' ', '\n# end\n', ' /* tail */'][ch.next(5)])
    return ''.join(text)


def split_merge(d, ballots):
    "another presentation of the same multiset of ballots: lines permuted, multipliers split and merged"
    out = []
    for m, r in ballots:
        parts = []
        left = m
        while left > 1 and d.p(45):
            k = d.int(1, left - 1) if left < 50 else d.choice([1, left // 2, left - 1])
            parts.append(k)
            left -= k
        parts.append(left)
        for k in parts:
            out.append([k, [list(x) for x in r]])
    out = d.perm(out)
    if d.p(50):
        merged = []
        seen = {}
        for m, r in out:
            key = repr(r)
            if key in seen and d.p(70):
                merged[seen[key]][0] += m
            else:
                seen[key] = len(merged)
                merged.append([m, r])
        out = merged
    return out


def fractional_landing_case(d):
    """a hopeful candidate lands exactly on a fractional quota through a surplus transfer: with a = 10^p - 1 first preferences
    for A, quota m + 10^-p (n = 3m, 2 seats), A's surplus 1 - 10^-p gives a transfer value of exactly 10^-p; one A>B ballot lifts
    B from m to the quota.  Distinguishes '>=' from '>' in hasQuota for the truncating rules, which random search never hits."""
    rule, p = d.choice([('wigm-prf', 4), ('wigm-prf-batch', 4), ('cfer', 5), ('cfer-batch', 5), ('wigm', 3), ('wigm', 2), ('wigm', 4)])
    a = 10 ** p - 1
    m = a - 1
    ids = d.perm([1, 2, 3])
    A, B, C = ids
    ballots = [[1, [[A], [B]]], [a - 1, [[A]]], [m, [[B]]], [m - 1, [[C]]]]
    if d.p(50):
        ballots = d.perm(ballots)
    opts = {'arithmetic': 'fixed', 'precision': p} if rule == 'wigm' else {}
    return dict(ncand=3, nseats=2, withdrawn=[], undeclared=[], tie=d.perm([1, 2, 3]), ballots=ballots, title='T', names=None,
                rule=rule, options=opts)


def astronomic(d, case):
    """the same election with an electorate beyond 2^53 ballots (multipliers are arbitrary integers in a ballot file):
    any float or fixed-width path in a count shows as a wrong quota or tally"""
    K = 10 ** d.int(15, 40)
    for b in case['ballots']:
        b[0] = b[0] * K + (d.int(0, 9) if d.p(50) else 0)
    return case


def many_candidates_case(d, rules=model.GREGORY):
    """more than 256 candidates (rankings are then stored as 16-bit arrays and candidate ids leave CPython's small-int cache),
    of whom five receive votes - two of those with ids above 256 - so that a winner with a high id has a surplus to transfer"""
    rule = d.choice(list(rules))
    nc = d.choice([257, 258, 260, 280, 300])
    ns = d.int(1, 3)
    high = d.sample(range(257, nc + 1), min(2, nc - 256))
    low = d.sample(range(1, 257), 5 - len(high))
    live = d.perm(high + low)
    ballots = []
    for _ in range(d.int(5, 8)):
        k = d.int(1, 5)
        r = d.sample(live, k)
        if d.p(60) and high[0] not in r[:1]:
            r = [high[0]] + [c for c in r if c != high[0]]      # the high-id candidate leads most lines
        ballots.append([d.int(20, 120), [[c] for c in r]])
    # all but a handful of the others are withdrawn: a count among 300 continuing candidates takes seconds (the Scottish
    # tie-break alone is cubic), and ids are not renumbered by withdrawals
    extra = d.sample([c for c in range(1, nc + 1) if c not in live], d.int(0, 4))
    keep = set(live) | set(extra)
    wd = [c for c in range(1, nc + 1) if c not in keep]
    return dict(ncand=nc, nseats=ns, withdrawn=wd, undeclared=[], tie=None, ballots=ballots, title='T', names=None, rule=rule, options={})


# elections (found by scanning 2*10^5 small ones with the reference count) in which an iteration of meek-prf that elects nobody ends
# with a total surplus of exactly omega = 0.000001: B.2.e ("less than omega") must iterate once more
MEEK_PRF_OMEGA_BOUNDARY = [[5, 2, [[15, [2]], [28, [1, 5, 2, 4, 3]], [9, [5, 1, 3]], [27, [4]], [24, [2]]]], [4, 2, [[22, [4]], [3, [2, 1, 3]], [5, [2, 1]], [24, [2, 1, 4, 3]], [19, [1, 4, 3, 2]], [13, [1, 4, 2, 3]], [17, [4]]]], [5, 3, [[25, [5]], [20, [3, 2, 5, 1, 4]], [22, [5, 2, 3, 4]], [14, [4, 3, 5, 2]], [6, [2]], [19, [5, 1, 3, 2, 4]], [30, [1, 4]]]], [5, 3, [[11, [2]], [23, [4, 1, 2, 5, 3]], [30, [5, 4, 3, 1, 2]], [2, [2, 3]], [16, [3, 5]], [27, [5]], [29, [4, 5, 1]]]]]


def meek_prf_boundary_case(d):
    "one of the boundary elections above under a random relabelling of the candidates (tie order relabelled with them)"
    nc, ns, ballots = d.choice(MEEK_PRF_OMEGA_BOUNDARY)
    f = dict(zip(range(1, nc + 1), d.perm(range(1, nc + 1))))
    bl = [[m, [[f[c]] for c in r]] for m, r in ballots]
    if d.p(50):
        bl = d.perm(bl)
    return dict(ncand=nc, nseats=ns, withdrawn=[], undeclared=[], tie=[f[c] for c in range(1, nc + 1)], ballots=bl, title='T', names=None,
                rule='meek-prf', options={})


def near_tie_case(d):
    """two candidates with equal first preferences receive slightly different numbers of low-valued papers from a narrow
    surplus: their tallies then differ by a few thousandths - strictly ordered in exact arithmetic, equal or not under a
    guarded tolerance depending on the precision.  (wigm / meek / warren; the caller sets the arithmetic options.)"""
    rule = d.choice(['wigm', 'wigm', 'meek', 'warren'])
    nc = d.int(4, 5)
    ids = d.perm(range(1, nc + 1))
    A, B, C, Dd = ids[:4]
    X = d.choice([30, 100, 300, 1000, 3000]) + d.int(0, 20)
    Bv = X + d.int(5, 40)
    Av = X + Bv // 2 + d.int(1, 4)
    m1, m2 = d.sample(range(1, 7), 2)
    ballots = [[m1, [[A], [C]]], [m2, [[A], [Dd]]], [Av - m1 - m2, [[A], [B]]], [Bv, [[B]]], [X, [[C]]], [X, [[Dd]]]]
    if nc == 5 and d.p(70):
        # a fifth candidate without first preferences gets a sliver of the surplus: excluded while holding a tally that is
        # not zero but may lie below a guarded tolerance
        m3 = d.int(1, min(3, Av - m1 - m2 - 1))
        ballots[2][0] -= m3
        ballots.append([m3, [[A], [ids[4]]]])
    if d.p(40):
        ballots = d.perm(ballots)
    return dict(ncand=nc, nseats=2, withdrawn=[], undeclared=[], tie=d.perm(range(1, nc + 1)), ballots=ballots, title='T', names=None,
                rule=rule, options={})


def narrow_chain_case(d, statutory_only=False):
    """two chained narrow surpluses in an electorate of thousands: A is elected a few votes above a quota Q of 10^3..10^5 (transfer
    value r1 ~ a/Q), all of A's papers go to B, who is then elected a few votes above Q as well (r2 ~ b/Q).  B's pile then holds
    papers worth 1 (own first preferences) next to papers worth r1, interleaved in file order; at B's transfer the latter fall
    below the last decimal place (r1*r2 truncates to exactly zero) while the former keep a value.  Exercises zero-valued papers,
    per-line truncation and any dependence on the order of lines - which a few dozen ballots never reach."""
    rule = d.choice(['scotland', 'scotland', 'cfer', 'cfer-batch', 'wigm-prf', 'wigm-prf-batch', 'mpls'] + ([] if statutory_only else ['wigm', 'wigm']))
    nc = d.int(4, 6)
    ids = d.perm(range(1, nc + 1))
    A, B, C, Dd = ids[:4]
    ns = 3
    q0 = d.choice([10 ** 3, 2 * 10 ** 3, 10 ** 4, 5 * 10 ** 4, 10 ** 5]) + d.int(0, 60)
    n = (ns + 1) * q0 + d.int(0, ns)
    Q = q0 + 1                      # floor(n/(s+1)) + 1; the fractional quotas are within one vote of it
    a, b = d.int(1, 6), d.int(1, 9)
    own = Q + b - a
    a1 = d.int(1, Q + a - 1)
    b1 = d.int(1, own - 1)
    rest = n - (Q + a) - own
    c1 = rest // 2 - d.int(0, 5)
    tailC = [[x] for x in d.sample([y for y in ids if y not in (A, B, C)], d.int(0, nc - 3))]
    ballots = [[a1, [[A], [B], [C]]], [b1, [[B], [C]]], [Q + a - a1, [[A], [B], [Dd]]], [own - b1, [[B], [Dd]]],
               [c1, [[C]] + tailC], [rest - c1, [[Dd], [C]]]]
    if d.p(40):
        ballots = d.perm(ballots)
    opts = {}
    if rule == 'wigm':
        opts = {'arithmetic': 'fixed', 'precision': d.choice([3, 4, 5])} if d.p(70) else {'arithmetic': 'guarded', 'precision': 4, 'guard': 0}
    return dict(ncand=nc, nseats=ns, withdrawn=[], undeclared=[], tie=d.perm(range(1, nc + 1)), ballots=ballots, title='T', names=None,
                rule=rule, options=opts)


def scotland_threeway_case(d):
    """a three-way exclusion tie whose most recent differing stage has two candidates sharing the lowest tally:
    no stage has a unique extreme, so the decision is by lot (tie order), not by candidate number."""
    ids = d.perm(range(1, 7))
    X, Y, A, B, C, Dd = ids
    k = d.int(1, 2)
    ballots = [[9 * k, [[X]]], [7 * k, [[Y]]], [4 * k, [[A]]], [3 * k, [[B], [C]]], [3 * k, [[C], [B]]],
               [k, [[Dd], [B], [C]]], [k, [[Dd], [C], [B]]]]
    if d.p(50):
        ballots = d.perm(ballots)
    return dict(ncand=6, nseats=2, withdrawn=[], undeclared=[], tie=d.perm(range(1, 7)), ballots=ballots, title='T',
                names=None, rule='scotland', options={})
