"""Coverage-guided campaign for C16 (thorough tier): atheris / libFuzzer over droop.profile with the C16 oracle inside the target.

usage: python -m vf.fuzz_c16 OUT.jsonl [libFuzzer args: -runs=N -seed=S -max_len=L CORPUS_DIR]
Bytes are decoded into texts in-process (first byte = mode: even -> UTF-8 text, odd -> each byte indexes the BLT token alphabet).
A violating input does not stop the campaign: the first witness per signature is appended to OUT.jsonl and the search goes on.
"""
import json
import os
import sys

from . import DEPS          # puts /verif/.deps on sys.path
import atheris

with atheris.instrument_imports(include=['droop']):
    import droop.profile        # noqa
    import droop.election       # noqa

from .props import C16

OUT = sys.argv[1]
SEEN = set()
EXECS = [0]


from .fuzz_decode import decode


def target(data):
    EXECS[0] += 1
    text = decode(data)
    res = C16.check(dict(text=text, origin='atheris'))
    for v in res.violations:
        if v.sig not in SEEN:
            SEEN.add(v.sig)
            with open(OUT, 'a') as f:
                f.write(json.dumps(dict(text=text, sig=v.sig)) + '\n')


def main():
    argv = [sys.argv[0]] + sys.argv[2:]
    atheris.Setup(argv, target)
    atheris.Fuzz()      # does not return (libFuzzer exits the process); the run count is read from its "Done N runs" line


if __name__ == '__main__':
    main()
