"""Matcher predicates for entries of known_findings.json.

A matcher decides from the (shrunk) case and the violation whether the violation is
an instance of that recorded finding; anything it does not recognise stays a new violation."""


def always(case, viol):
    return True
