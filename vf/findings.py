"""Matcher predicates for entries of known_findings.json.

A matcher decides from the (shrunk) case and the violation whether the violation is
an instance of that recorded finding; anything it does not recognise stays a new violation."""


def always(case, viol):
    return True


def meek_s2(case, viol):
    "F04: the violation occurs under Meek-family options outside the supported stratum S1"
    from .props.C08 import in_S1
    c = case.get('case', case)
    return c.get('rule') in ('meek', 'warren') and not in_S1(c)


def meek_resolution(case, viol):
    """F04: a Meek/Warren failure that disappears when the same election is counted with 12 more digits (same omega):
    the arithmetic's resolution was exhausted (a keep factor of the order omega/ballots is not representable).
    Either the options are outside stratum S1, or the electorate is huge relative to the precision."""
    from . import drive
    c = case.get('case', case)
    if c.get('rule') not in ('meek', 'warren'):
        return False
    o = dict(c.get('options') or {})
    a = o.get('arithmetic', 'guarded')
    if a not in ('fixed', 'guarded'):
        return False
    if a == 'fixed':
        p = o.get('precision', 9)
        omega = o.get('omega', p * 2 // 3)
        o.update(precision=p + 12, omega=omega)
    else:
        p = o.get('precision', 18)
        g = o.get('guard', p // 2)
        omega = o.get('omega', p // 2)
        o.update(arithmetic='guarded', precision=p, guard=g + 12, omega=omega)
    o.pop('display', None)
    try:
        twin = drive.run(dict(c, options=o))
    except Exception:      # pylint: disable=broad-except
        return False
    return twin.exc is None and not twin.budget_hit and twin.stage == 'done' and \
        len(twin.elected) == min(c['nseats'], c['ncand'] - len(c.get('withdrawn') or []))


def meek_s2_or_resolution(case, viol):
    return meek_s2(case, viol) or meek_resolution(case, viol)
