"""Matcher predicates for entries of known_findings.json.

A matcher decides from the (shrunk) case and the violation whether the violation is
an instance of that recorded finding; anything it does not recognise stays a new violation."""


def always(case, viol):
    return True


def meek_s2(case, viol):
    "F04: the violation occurs under Meek-family options outside the supported stratum S1"
    from .props.C08 import in_S1
    c = case.get('case', case)
    return c.get('rule') in ('meek', 'warren') and not in_S1(c)


def meek_resolution(case, viol):
    """F04: a Meek/Warren failure that disappears when the same election is counted with 12 more digits (same omega):
    the arithmetic's resolution was exhausted (a keep factor of the order omega/ballots is not representable).
    Either the options are outside stratum S1, or the electorate is huge relative to the precision."""
    from . import drive
    c = case.get('case', case)
    if c.get('rule') not in ('meek', 'warren'):
        return False
    o = dict(c.get('options') or {})
    a = o.get('arithmetic', 'guarded')
    if a not in ('fixed', 'guarded'):
        return False
    if a == 'fixed':
        p = o.get('precision', 9)
        omega = o.get('omega', p * 2 // 3)
        o.update(precision=p + 12, omega=omega)
    else:
        p = o.get('precision', 18)
        g = o.get('guard', p // 2)
        omega = o.get('omega', p // 2)
        o.update(arithmetic='guarded', precision=p, guard=g + 12, omega=omega)
    o.pop('display', None)
    try:
        twin = drive.run(dict(c, options=o))
    except Exception:      # pylint: disable=broad-except
        return False
    if not (twin.exc is None and not twin.budget_hit and twin.stage == 'done' and
            len(twin.elected) == min(c['nseats'], c['ncand'] - len(c.get('withdrawn') or []))):
        return False
    # ... and the high-resolution twin satisfies every clause of C08 (keep factors, conservation, exits)
    from .props import C08
    try:
        return not C08.check(dict(c, options=o)).violations
    except Exception:      # pylint: disable=broad-except
        return False


def meek_s2_or_resolution(case, viol):
    """F04.  A keep factor out of range or a negative tally is the known finding only under options outside stratum S1;
    the crash signatures (ZeroDivisionError in the keep-factor update, post-count assertion) and a keep factor truncated
    to exactly 0 also when the failure disappears with 12 more digits (the twin must pass every clause of C08).  (A keep factor of 1.000000001 under default options was a different defect, F22:
    it also disappears with more digits, so the resolution test must not cover that signature.)"""
    if meek_s2(case, viol):
        return True
    sig = viol.get('sig', '')
    if sig.startswith(('count-raises', 'over-committed')):
        return meek_resolution(case, viol)
    if sig.startswith('kf-elected') and ' has keep factor 0 at ' in viol.get('detail', ''):
        # truncated to exactly 0 (never the F22 shape, a keep factor above 1): known only if more digits cure it
        return meek_resolution(case, viol)
    return False


def highres_ref_differs(case, viol):
    """F23: the statutory fixed-digit arithmetic (qpq: guarded 9+9, meek-prf: fixed 9) is exhausted by a huge electorate:
    the reference count of the same election with 12 more digits elects a different set of candidates than droop does
    (and than the same-digit reference, which droop matches - C03).  If the high-resolution count agrees with droop,
    the violation is not a resolution artefact and stays new."""
    from . import drive, model
    from .ref import qpq, meek_prf
    from .props.C11 import delete_withdrawn
    c = case.get('case', case)
    rule = c.get('rule')
    if rule not in ('qpq', 'meek-prf'):
        return False
    o = drive.run(c)
    if not o.ok or o.stage != 'done':
        return False
    wd = set(c.get('withdrawn') or [])
    cd = delete_withdrawn(c) if wd else c
    keep = [x for x in range(1, c['ncand'] + 1) if x not in wd]
    back = {i + 1: x for i, x in enumerate(keep)}
    ballots = [(m, [rk[0] for rk in r]) for m, r in model.kept_ballots(cd)]
    tie = cd.get('tie') or list(range(1, cd['ncand'] + 1))
    if rule == 'qpq':
        hist = qpq.count(cd['ncand'], cd['nseats'], ballots, tie, P=9, G=21)
        winners = sorted(back[x] for x in hist[-1][1])
    else:
        hist = meek_prf.count(cd['ncand'], cd['nseats'], ballots, tie, P=21, OM=6)
        winners = sorted(back[x] for x in hist[-1][1])
    return winners != o.elected


def qpq_tolerance_order(case, viol):
    """F26: qpq with quotients that differ by less than the guarded comparison tolerance without being identical (electorates of
    about 10^10 ballots and more): the builtin max()/min() over such values return the first of them, so "the highest quotient
    exceeds the quota" depends on candidate order and the count leaves the reference history.  Identity: rule qpq AND the count's
    own statistics own up to it (maxDiff above a thousandth of the tolerance: two clearly different values compared equal).  On
    ordinary electorates maxDiff is truncation noise (a few units of 10^-18), so a deviation from the published procedure there stays new."""
    import re
    from . import drive
    c = case.get('case', case)
    if c.get('rule') != 'qpq':
        return False
    o = drive.run(c)
    rep = (o.record or {}).get('arithmetic_report') or ''
    m = re.search(r'maxDiff:\s*(\d+).*?geps:\s*(\d+)', rep, re.S)
    # "near the tolerance" as in C13: truncation noise of equal quotients (a few units of 10^-18) does not count
    return bool(m) and int(m.group(1)) * 1000 > int(m.group(2))


def guard_digits_cure(case, viol):
    """F14 (sequence form): a guarded count leaves the exact count's action sequence although its statistics are far from the
    tolerance, because the truncation accumulated over a large electorate with few guard digits exceeds the gap between two
    tallies.  Identity: the same election with 12 more guard digits passes the whole guarded-versus-rational comparison of C13
    (sequence and tallies); if it does not, the deviation is not a matter of guard digits and stays new."""
    from .props import C13
    if case.get('kind') != 'countq':
        return False
    c = case['case']
    o = dict(c['options'])
    o['guard'] = int(o.get('guard', 0)) + 12
    try:
        r = C13.check_countq(dict(case, case=dict(c, options=o)))
    except Exception:      # pylint: disable=broad-except
        return False
    # the better-resolved twin either agrees with the exact count or owns up to a comparison near the tolerance (which the
    # few-digit count could not see: its truncation noise had pushed the two values apart)
    return not r.violations and not r.skipped and ('countq-far' in r.classes or 'countq-near-tolerance(not asserted)' in r.classes)


def meek_prf_digits_exhausted(case, viol):
    """F23 (crash form, C01): meek-prf over-elects and trips the post-count assertion on an electorate that exhausts its nine
    statutory digits.  Identity: the reference count of the published procedure at the SAME nine digits fills the wrong number of
    seats as well (droop follows the procedure) AND the reference at 21 digits fills exactly the seats; otherwise new."""
    from . import model
    from .ref import meek_prf
    from .props.C11 import delete_withdrawn
    c = case.get('case', case)
    if c.get('rule') != 'meek-prf':
        return False
    wd = set(c.get('withdrawn') or [])
    cd = delete_withdrawn(c) if wd else c
    ballots = [(m, [rk[0] for rk in r]) for m, r in model.kept_ballots(cd)]
    tie = cd.get('tie') or list(range(1, cd['ncand'] + 1))
    want = min(cd['nseats'], cd['ncand'])
    try:
        lo = meek_prf.count(cd['ncand'], cd['nseats'], ballots, tie, P=9, OM=6)
        hi = meek_prf.count(cd['ncand'], cd['nseats'], ballots, tie, P=21, OM=6)
    except Exception:      # pylint: disable=broad-except
        return False
    return len(lo[-1][1]) != want and len(hi[-1][1]) == want
