"""Matcher predicates for entries of known_findings.json.

A matcher decides from the (shrunk) case and the violation whether the violation is
an instance of that recorded finding; anything it does not recognise stays a new violation."""


def always(case, viol):
    return True


def meek_s2(case, viol):
    "F04: the violation occurs under Meek-family options outside the supported stratum S1"
    from .props.C08 import in_S1
    c = case.get('case', case)
    return c.get('rule') in ('meek', 'warren') and not in_S1(c)
