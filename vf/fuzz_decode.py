"byte -> text decoding shared by the atheris target and the harness (no atheris import here)"


def decode(data):
    from .props import C16
    if not data:
        return ''
    mode, payload = data[0], data[1:]
    if mode % 2 == 0:
        return payload.decode('utf-8', 'replace')
    return ' '.join(C16.ALPHABET[b % len(C16.ALPHABET)] for b in payload)
