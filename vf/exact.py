"""Decode droop values into fractions.Fraction without using droop's operators,
and independent reference implementations of rounding and printing."""
from fractions import Fraction

from droop.values.fixed import Fixed
from droop.values.guarded import Guarded
from droop.values.rational import Rational


def frac(v):
    "exact value of a droop number (or int / Fraction) as a plain Fraction"
    if v is None:
        return None
    if isinstance(v, bool):
        return v
    if isinstance(v, int):
        return Fraction(v)
    if isinstance(v, Fraction):     # includes Rational
        return Fraction(v.numerator, v.denominator)
    if type(v) is Fixed:
        return Fraction(v._value, 10 ** Fixed.precision)
    if type(v) is Guarded:
        return Fraction(v._value, 10 ** (Guarded.precision + Guarded.guard))
    raise TypeError('not a droop value: %r' % (v,))


class Arith:
    "parameters of the arithmetic an election ran with (read right after construction)"

    def __init__(self, V):
        self.name = V.name                  # fixed integer guarded rational
        self.cls = V.__name__               # Fixed Guarded Rational
        if V is Rational:
            self.precision = None
            self.guard = None
            self.display = Rational.dp
            self.ulp = Fraction(0)
            self.geps = Fraction(0)
            self.scale = None
        elif V is Fixed:
            self.precision = Fixed.precision
            self.guard = None
            self.display = Fixed.display
            self.scale = 10 ** Fixed.precision
            self.ulp = Fraction(1, self.scale)
            self.geps = Fraction(0)
        else:
            self.precision = Guarded.precision
            self.guard = Guarded.guard
            self.display = Guarded.display
            self.scale = 10 ** (Guarded.precision + Guarded.guard)
            self.ulp = Fraction(1, self.scale)
            g = 10 ** Guarded.guard // 2
            self.geps = Fraction(g if g else 1, self.scale)
        self.exact_flag = bool(V.exact)     # what the rules look at
        self.is_exact = V is Rational

    # comparison as the arithmetic itself defines it, on exact values
    def eq(self, a, b):
        if self.cls == 'Guarded':
            return abs(a - b) < self.geps
        return a == b

    def lt(self, a, b):
        if self.cls == 'Guarded':
            return (b - a) >= self.geps
        return a < b

    def le(self, a, b):
        return not self.lt(b, a)

    def gt(self, a, b):
        return self.lt(b, a)

    def ge(self, a, b):
        return not self.lt(a, b)

    def floor(self, x):
        "x rounded toward minus infinity to a representable value"
        if self.scale is None:
            return x
        return Fraction((x.numerator * self.scale) // x.denominator, self.scale)

    def as_dict(self):
        return dict(name=self.name, cls=self.cls, precision=self.precision, guard=self.guard,
                    display=self.display)


def ref_print(x, d):
    "reference printer: x rounded half-up to d digits, as sign, integer part, '.', d digits"
    r = (x.numerator * 10 ** d * 2 + x.denominator) // (2 * x.denominator)   # floor(x*10^d + 1/2)
    sign = '-' if r < 0 else ''
    a = abs(r)
    if d == 0:
        return sign + str(a), r
    return '%s%d.%0*d' % (sign, a // 10 ** d, d, a % 10 ** d), r
