"""Exhaustive small scope (thorough tier): every election with <= 3 candidates and every multiset of <= 4 ballots
over the non-empty strict partial rankings (15 for three candidates), every seat count, every withdrawn singleton,
for all 11 rule names with default options.  Enumeration inside the same harness and oracles (about 5*10^5 counts)."""
import itertools

from . import model


def rankings(nc):
    out = []
    for k in range(1, nc + 1):
        for p in itertools.permutations(range(1, nc + 1), k):
            out.append(list(p))
    return out


def chunks(rules=model.ALL_RULES):
    out = []
    for rule in rules:
        for nc in (1, 2, 3):
            for ns in range(1, nc + 1):
                for wd in range(0, nc + 1):
                    if wd and nc == 1:
                        continue
                    out.append((rule, nc, ns, wd))
    return out


def cases(chunk, maxballots=4, decorate=None):
    rule, nc, ns, wd = chunk
    rk = rankings(nc)
    for k in range(1, maxballots + 1):
        for combo in itertools.combinations_with_replacement(range(len(rk)), k):
            ballots = []
            for i in combo:
                if ballots and ballots[-1][2] == i:
                    ballots[-1][0] += 1
                else:
                    ballots.append([1, [[c] for c in rk[i]], i])
            case = dict(ncand=nc, nseats=ns, withdrawn=[wd] if wd else [], undeclared=[], tie=None, names=None, title='T',
                        ballots=[[m, r] for m, r, _ in ballots], rule=rule, options={})
            if model.valid(case):
                yield decorate(case) if decorate else case
