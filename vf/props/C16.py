"""C16 - any text is either a valid profile or a clean profile error

case = {'text': str, 'origin': which generator produced it}
"""
import re
import signal

from hypothesis import strategies as st

from .. import gen, model, drive, bltgen
from ..gen import D
from ..run import Result
from ..drive import exc_sig
from .C15 import structural

from droop.profile import ElectionProfile, ElectionProfileError
from droop.election import Election

ID = 'C16'
LEVEL = 'exploration'
N = {'quick': 24000, 'thorough': 800000}
RULE = ('texts from five generators: (0) well-formed files with 0-3 injected faults from a catalogue aimed at the hand-written error paths, '
        '(1) token soup over the BLT alphabet, (2) truncations of valid files at token and character boundaries, (3) single-token '
        'deletion/duplication/replacement, (4) arbitrary unicode text, (5, thorough) coverage-guided byte-level fuzzing decoded to text or token sequences; non-trivial = the text has >= 4 tokens and its first two tokens are '
        'numeric (it is not rejected at the first token); distinct = distinct text')
TECHNIQUE = 'fuzzing with a structured (grammar-with-faults) generator under Hypothesis; oracle: valid-profile invariants or ElectionProfileError, constructor total on 11 rules'
LEVEL_TEXT = 'generated malformed and well-formed texts; every outcome other than a structurally valid profile or ElectionProfileError is a violation'
LEVEL_NOTE = ('a 20 s alarm per text turns a hang into a violation (typical parse time is < 1 ms); the thorough tier adds 16 coverage-guided '
              'atheris/libFuzzer campaigns (1.5*10^6 runs each, fixed -seed and -runs, fresh corpus; even shards empty corpus, odd shards the '
              'repository .blt files) with the same oracle inside the target; if atheris cannot be imported the tier says so in evidence')
GUARDS = {'all': {'reaches-ballots': 0.2, 'accepted': 0.02}}

ALPHABET = ['0', '1', '2', '3', '4', '10', '255', '256', '257', '-1', '-2', '-3', '-0', '=', '1=2', '2=2', '1=', '=1', '0=0', '[tie', '[nick', '[droop',
            '[withdrawn', '[undeclared', '[x]', '[tie]', ']', '1]', 'a]', '(', ')', '(id)', '(a', 'b)', '"', '""', '"A"', '"A', 'B"', '"T"', '/*', '*/',
            '/*x*/', '#', '#x', 'a', 'b', 'meek', 'precision=4', '99999999999999999999999', '18446744073709551616', '4294967296', '﻿', '٣', '²', '1.0', '+1', '1_0', '\n', '\n', '\r\n', '\t']
FAULTS = ['ncand+1', 'ncand-1', 'ncand0', 'nseats0', 'nseats+', 'minus-ncand', 'minus-ncand+1', 'minus-big', 'dup-rank', 'dup-withdrawn', 'dup-equal',
          'dup-withdrawn-equal', 'mix-id-mult', 'unterminated-option', 'unterminated-quote', 'unterminated-comment', 'unterminated-id', 'drop-zero',
          'drop-final-zero', 'drop-names', 'drop-title', 'option-after-ballot', 'bad-cid', 'nick-dup', 'tie-short', 'withdrawn-dup', 'neg-mult',
          'empty-ballot', 'cut-at-names', 'all-withdrawn', 'ncand-huge']


def inject(d, toks, case, fault):
    nc = case['ncand']
    toks = list(toks)
    zeros = [i for i, t in enumerate(toks) if t == '0']

    def first_ballot():
        for i, t in enumerate(toks[2:], 2):
            if (t.isdigit() or t.startswith('(')) and not toks[i - 1].startswith('['):
                return i
        return 2
    fb = first_ballot()
    if fault == 'ncand+1':
        toks[0] = str(nc + 1)
    elif fault == 'ncand-1':
        toks[0] = str(nc - 1)
    elif fault == 'ncand0':
        toks[0] = '0'
    elif fault == 'nseats0':
        toks[1] = '0'
    elif fault == 'nseats+':
        toks[1] = str(nc + d.int(0, 2))
    elif fault == 'minus-ncand':
        toks.insert(2, '-%d' % nc)
    elif fault == 'minus-ncand+1':
        toks.insert(2, '-%d' % (nc + d.int(1, 3)))
    elif fault == 'minus-big':
        toks.insert(2, '-%d' % 10 ** d.int(3, 7))
    elif fault in ('dup-rank', 'dup-withdrawn', 'dup-equal', 'dup-withdrawn-equal'):
        wd = case.get('withdrawn') or []
        c = d.choice(wd) if ('withdrawn' in fault and wd) else d.int(1, nc)
        if 'withdrawn' in fault and not wd:
            toks.insert(2, '-%d' % c)
            fb += 1
        r = ['%d=%d' % (c, c)] if 'equal' in fault else [str(c), str(c)]
        if d.p(50):
            r.insert(d.int(0, len(r)), str(d.int(1, nc)))
        toks[fb:fb] = ['1'] + r + ['0']
    elif fault == 'mix-id-mult':
        toks[fb:fb] = ['(zz)', str(d.int(1, nc)), '0']
    elif fault == 'unterminated-option':
        toks.insert(2, d.choice(['[tie', '[nick', '[droop', '[withdrawn', '[zz']))
    elif fault == 'unterminated-quote':
        q = [i for i, t in enumerate(toks) if t.endswith('"')]
        if q:
            i = d.choice(q)
            toks[i] = toks[i][:-1] or 'x'
    elif fault == 'unterminated-comment':
        toks.insert(d.int(0, len(toks)), '/*')
    elif fault == 'unterminated-id':
        toks[fb:fb] = ['(zz', '1', '0']
    elif fault == 'drop-zero' and zeros:
        del toks[d.choice(zeros)]
    elif fault == 'drop-final-zero' and zeros:
        del toks[zeros[-1]]
    elif fault == 'drop-names':
        q = [i for i, t in enumerate(toks) if t.startswith('"')]
        if q:
            del toks[q[0]:q[0] + d.int(1, 3)]
    elif fault == 'drop-title':
        q = [i for i, t in enumerate(toks) if t.startswith('"')]
        if q:
            del toks[q[-1]:]
    elif fault == 'option-after-ballot':
        toks[fb + 1:fb + 1] = ['[tie'] + [str(c) for c in range(1, nc + 1)] + [']']
    elif fault == 'bad-cid':
        bad = d.choice([str(nc + 1), '99999', 'zz', '1=zz', '-1', '1==2', '=', '\u00b2', '1=\u00b2', '\u0663', '\u2460', '\uff11', '1\u00b3', '\u0be7'])
        if d.p(70):
            toks[fb:fb] = ['1', bad, '0']
        else:       # the same token in an option's candidate list
            toks[2:2] = [d.choice(['[tie', '[withdrawn', '[undeclared']), bad, ']']
    elif fault == 'nick-dup':
        toks[2:2] = ['[nick'] + ['q'] * nc + [']']
    elif fault == 'tie-short':
        toks[2:2] = ['[tie'] + [str(c) for c in range(1, nc)] + [']']
    elif fault == 'withdrawn-dup':
        toks[2:2] = ['[withdrawn', '1', '1]']
    elif fault == 'neg-mult':
        toks[fb:fb] = ['-1', '1', '0'] if d.p(50) else ['1', '1', '0', '-1', '1', '0']
    elif fault == 'empty-ballot':
        toks[fb:fb] = ['1', '0']
    elif fault == 'cut-at-names':
        q = [i for i, t in enumerate(toks) if t.startswith('"')]
        if q:
            del toks[q[0] + d.int(0, min(2, len(q) - 1)):]
    elif fault == 'ncand-huge':
        big = d.choice([2 ** 32, 2 ** 64, 10 ** 21, 10 ** 36])
        toks[0] = str(big)
        toks[fb:fb] = ['1', str(big - d.int(0, 1)), d.choice(['1', str(big // 7)]), '0']
    elif fault == 'all-withdrawn':
        toks[2:2] = ['-%d' % c for c in range(1, nc + 1)]
    return toks


def join(d, toks):
    out = []
    for i, t in enumerate(toks):
        if i:
            out.append(d.choice([' ', ' ', ' ', '\n', '\t', '\r\n', ' # c\n', ' /* c */ ']) if d.p(30) else ' ')
        out.append(t)
    return ''.join(out)


@st.composite
def cases(draw, tier):
    d = D(draw)
    g = d.int(0, 19)
    if g <= 11:
        case = bltgen.full_case(d, 'quick')
        if d.p(4):
            case = bltgen.full_case(d, 'quick', ncand=d.choice([255, 256, 257]))
        text = gen.render_layout(case, case['layout'])
        if g <= 6:
            toks = text.split()
            nf = d.int(0, 3) if d.p(85) else 0
            faults = []
            for _ in range(nf):
                f = d.choice(FAULTS)
                faults.append(f)
                toks = inject(d, toks, case, f)
            return dict(text=join(d, toks), origin='faults:' + ','.join(faults))
        if g <= 8:
            toks = text.split()
            k = d.int(0, len(toks))
            if d.p(50):
                return dict(text=' '.join(toks[:k]), origin='truncate-token')
            cut = d.int(max(0, len(text) - 40), len(text)) if d.p(50) else d.int(0, len(text))
            return dict(text=text[:cut], origin='truncate-char')
        toks = text.split()
        i = d.int(0, max(0, len(toks) - 1))
        m = d.int(0, 2)
        if m == 0 and toks:
            del toks[i]
        elif m == 1 and toks:
            toks.insert(i, toks[i])
        elif toks:
            toks[i] = d.choice(ALPHABET)
        return dict(text=join(d, toks), origin='token-mutation')
    if g <= 15:
        n = d.int(0, 60) if d.p(30) else d.int(0, 14)
        toks = [d.choice(ALPHABET) for _ in range(n)]
        return dict(text=' '.join(toks), origin='soup')
    return dict(text=draw(st.text(max_size=80)), origin='unicode')


def strategy(tier):
    return cases(tier)


class Hang(Exception):
    pass


def _alarm(signum, frame):
    raise Hang()


RULES = model.ALL_RULES


def check(case):
    res = Result()
    if case.get('origin') == 'atheris-stats':
        res.evals = max(1, case.get('execs', 0))
        res.count('atheris executions', case.get('execs', 0))
        if case.get('unavailable') or not case.get('execs'):
            res.tag('atheris-campaign-did-not-run')
        return res
    text = case['text']
    toks = text.split()
    signal.signal(signal.SIGALRM, _alarm)
    signal.setitimer(signal.ITIMER_REAL, 20, 1.0)     # repeating: a single raise can get lost
    try:
        try:
            p = ElectionProfile(data=text)
        except ElectionProfileError:
            p = None
        except Hang:
            res.fail('hang', 'hang|parse', 'parsing did not finish within 20 s')
            return res
        except Exception as e:      # pylint: disable=broad-except
            res.fail('crash', 'crash|%s' % exc_sig(e), '%r on %r' % (e, text[:200]))
            p = None
        if p is not None:
            res.tag('accepted')
            for v in structural(p):
                res.fail('accepted-invalid', 'accepted-invalid|' + v[0], '%s; text %r' % (v[1], text[:200]))
            if not res.violations and p.options == []:
                for r in RULES:
                    try:
                        Election(p, dict(rule=r))
                    except Hang:
                        res.fail('hang', 'hang|construct', 'constructor did not finish within 20 s')
                        break
                    except Exception as e:      # pylint: disable=broad-except
                        res.fail('constructor', 'constructor|%s' % exc_sig(e), 'Election(profile, rule=%s) raises %r on %r' % (r, e, text[:200]))
                        break
    finally:
        signal.setitimer(signal.ITIMER_REAL, 0)
    res.tag('origin:' + case.get('origin', '?').split(':')[0])
    if len(toks) >= 4 and toks[0].isdigit() and toks[1].isdigit():
        res.tag('reaches-ballots')
        res.nontrivial = True
    return res


def shrink_candidates(case):
    text = case['text']
    toks = text.split()
    if len(toks) > 1:
        n = len(toks)
        step = max(1, n // 2)
        while step >= 1:
            for i in range(0, n, step):
                t2 = toks[:i] + toks[i + step:]
                if t2:
                    yield dict(text=' '.join(t2), origin='shrunk')
            step //= 2
    if ' '.join(toks) != text:
        yield dict(text=' '.join(toks), origin='shrunk')
    for i, t in enumerate(toks):
        if len(t) > 1:
            for t2 in (t[:-1], t[1:], t[0]):
                yield dict(text=' '.join(toks[:i] + [t2] + toks[i + 1:]), origin='shrunk')
        if re.fullmatch(r'[0-9]+', t) and int(t) > 1:
            for v in (1, int(t) // 2, int(t) - 1):
                yield dict(text=' '.join(toks[:i] + [str(v)] + toks[i + 1:]), origin='shrunk')


def valid_case(case):
    return isinstance(case.get('text'), str)


# ---- thorough tier: coverage-guided campaign (atheris / libFuzzer), 16 independent shards
ATHERIS_RUNS = {'quick': 0, 'thorough': 1500000}


def extra_chunks(tier, seed):
    return [('atheris', s) for s in range(16)] if ATHERIS_RUNS.get(tier) else []


def extra_cases(tier, seed, chunk):
    """run one libFuzzer campaign in a subprocess (fresh corpus directory; even shards start from an empty corpus, odd shards from
    the repository's own .blt files); yield the recorded witnesses, a sample of the final corpus and one statistics pseudo-case"""
    import glob
    import json
    import os
    import re
    import shutil
    import subprocess
    import sys
    import tempfile
    from .. import VERIF, REPO
    _, shard = chunk
    tmp = tempfile.mkdtemp(prefix='c16-fuzz-')
    try:
        corpus = os.path.join(tmp, 'corpus')
        os.makedirs(corpus)
        if shard % 2:
            for i, fn in enumerate(sorted(glob.glob(os.path.join(REPO, 'test', 'blt', '**', '*.blt'), recursive=True))):
                data = open(fn, 'rb').read()
                if len(data) <= 4000:
                    open(os.path.join(corpus, 'seed%03d' % i), 'wb').write(b'\x00' + data)
        out = os.path.join(tmp, 'out.jsonl')
        runs = ATHERIS_RUNS[tier]
        env = dict(os.environ, PYTHONHASHSEED='0')
        r = subprocess.run([sys.executable, '-m', 'vf.fuzz_c16', out, '-runs=%d' % runs, '-seed=%d' % (seed * 1000 + shard + 1),
                            '-max_len=%d' % (4096 if shard % 2 else 256), '-timeout=60', corpus],
                           cwd=VERIF, env=env, capture_output=True, text=True)
        m = re.search(r'Done (\d+) runs', r.stderr + r.stdout)
        execs = int(m.group(1)) if m else 0
        unavailable = 'No module named' in (r.stderr or '') and 'atheris' in r.stderr
        yield dict(text='', origin='atheris-stats', execs=execs, unavailable=unavailable, rc=r.returncode,
                   err='' if m else (r.stderr or '')[-300:])
        if os.path.exists(out):
            for line in open(out):
                d = json.loads(line)
                if 'text' in d:
                    yield dict(text=d['text'], origin='atheris')
        from ..fuzz_decode import decode
        for fn in sorted(os.listdir(corpus))[:300]:
            if not fn.startswith('seed'):
                yield dict(text=decode(open(os.path.join(corpus, fn), 'rb').read()), origin='atheris-corpus')
    finally:
        shutil.rmtree(tmp, ignore_errors=True)
