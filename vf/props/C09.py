"""C09 - candidate status only moves forward; seats are never over- or under-committed"""
from .. import gen, model, drive
from ..run import Result
from . import common

ID = 'C09'
LEVEL = 'exploration'
N = {'quick': 48000, 'thorough': 1200000}
RULE = ('generated elections (all rules x accepted options); transition-relation monitor over every pair of consecutive recorded '
        'actions; non-trivial = >= 1 exclusion and >= 1 election (qpq: a restart after an election); distinct = distinct case JSON')
TECHNIQUE = 'property-based testing: transition-relation monitor over consecutive actions of generated counts'
LEVEL_TEXT = 'every consecutive pair of recorded actions of ~5*10^4 (quick) / 10^6 (thorough) generated counts is checked against the allowed status transitions'
LEVEL_NOTE = 'QPQ restart is modelled: un-election is allowed only for all elected candidates at once, in the first action after the round action that follows a round with an exclusion'
GUARDS = {'all': {'elect+defeat': 0.2, 'qpq-restart-after-election': 0.002}}


def strategy(tier):
    return gen.election_cases(tier=tier, equal_for_meek=True)


def status(s):
    if s['state'] == 'elected':
        return 'pending' if s.get('pending') else 'elected'
    return s['state']


ALLOWED = {
    ('hopeful', 'hopeful'), ('hopeful', 'elected'), ('hopeful', 'pending'), ('pending', 'pending'), ('pending', 'elected'),
    ('elected', 'elected'), ('hopeful', 'defeated'), ('defeated', 'defeated'), ('withdrawn', 'withdrawn'),
}


def check(case):
    res = Result()
    rule = case['rule']
    o = drive.run(case)
    if common.failed_run(res, case, o, construct_is_violation=False):
        if not (o.exc is not None and o.stage == 'count'):
            return res
        res.skipped = 'count-raises:%s' % type(o.exc).__name__
    base = common.base_sig(case, o)
    acts = common.nonlog(o)
    s = case['nseats']
    wd = set(case.get('withdrawn') or [])
    und = set(case.get('undeclared') or []) if rule == 'mpls' else set()
    electable = case['ncand'] - len(wd) - len(und - wd)
    need = min(s, electable)
    prev = None
    defeat_in_round = False
    restart_allowed = False
    saw_elect = saw_defeat = restarted_after_election = False
    elected_since_restart = False
    for i, a in acts:
        cur = {c: status(x) for c, x in a['cstate'].items()}
        if a['tag'] == 'round':
            restart_allowed_next = defeat_in_round and rule == 'qpq'
            defeat_in_round = False
        else:
            restart_allowed_next = False
        if a['tag'] == 'defeat':
            defeat_in_round = True
            saw_defeat = True
        if a['tag'] == 'elect':
            saw_elect = True
        if prev is not None:
            pa, pcur = prev
            if a['round'] < pa['round']:
                res.fail('round-decreases', 'round-decreases|' + base, 'round %d after %d' % (a['round'], pa['round']))
            if restart_allowed:
                # QPQ restart (modelled, not exempted): every elected candidate becomes hopeful at once,
                # before anything else happens in the new round
                if any(v in ('elected', 'pending') for v in pcur.values()):
                    restarted_after_election = True
                pcur = {c: ('hopeful' if v in ('elected', 'pending') else v) for c, v in pcur.items()}
            back = [c for c in cur if (pcur[c], cur[c]) not in ALLOWED]
            if back:
                c = back[0]
                res.fail('transition', 'transition|%s->%s|%s' % (pcur[c], cur[c], base),
                         'candidate %d goes %s -> %s at action %d (%s)' % (c, pcur[c], cur[c], i, a['msg']))
                break
        nel = sum(1 for v in cur.values() if v in ('elected', 'pending'))
        nhop = sum(1 for c, v in cur.items() if v == 'hopeful' and c not in und)
        if nel > s:
            res.fail('over-committed', 'over-committed|' + base, '%d elected for %d seats at action %d (%s)' % (nel, s, i, a['msg']))
            break
        if nel + nhop < need:
            res.fail('under-committed', 'under-committed|' + base,
                     '%d elected + %d continuing < %d fillable seats at action %d (%s)' % (nel, nhop, need, i, a['msg']))
            break
        for c in wd:
            if cur.get(c) != 'withdrawn':
                res.fail('withdrawn-changes', 'withdrawn-changes|' + base, 'withdrawn %d is %s' % (c, cur.get(c)))
        prev = (a, cur)
        restart_allowed = restart_allowed_next
    res.tag('rule:' + rule)
    if saw_elect and saw_defeat:
        res.tag('elect+defeat')
        if rule != 'qpq':
            res.nontrivial = True
    if restarted_after_election:
        res.tag('qpq-restart-after-election')
        res.nontrivial = True
    return res


# ---- thorough tier: exhaustive small scope (enumeration inside the same harness and oracle)
EXTRA_EXHAUSTIVE = {'quick': False, 'thorough': False}     # the small scope is complete; the generated part is a sample


def extra_chunks(tier, seed):
    from .. import smallscope
    return smallscope.chunks(model.ALL_RULES) if tier == 'thorough' else []


def extra_cases(tier, seed, chunk):
    from .. import smallscope
    return smallscope.cases(chunk, decorate=None)
