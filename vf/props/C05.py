"""C05 - Droop proportionality: a solid coalition with k quotas wins k seats"""
import itertools
from fractions import Fraction

from hypothesis import strategies as st

from .. import gen, model, drive
from ..gen import D
from ..run import Result
from . import common

ID = 'C05'
LEVEL = 'exploration'
N = {'quick': 40000, 'thorough': 600000}
RULE = ('generated strict-ranking elections with a planted solid coalition sized just above or below k quotas, plus background ballots; all rules x '
        'accepted options (mpls without write-ins); every candidate subset with non-zero solid support (the others are vacuous) is checked; non-trivial = some subset S (2 <= |S| < candidates) is '
        'solidly supported by more than k >= 1 quotas (plus allowance) and by at most (k+1) quotas plus one ballot line; distinct = distinct case JSON')
TECHNIQUE = 'property-based testing: validity predicate (Droop proportionality criterion) brute-forced over all candidate subsets of generated planted-coalition profiles'
LEVEL_TEXT = 'every subset of candidates of every generated election is checked against the criterion with the allowance the property states'
LEVEL_NOTE = ('Meek/Warren are counted with the default omega of the arithmetic; quota = the rule\'s own initial quota (record quota); allowance = ballots x candidates x 2 ulp; vacuous for multi-seat integer arithmetic '
              '(counted as class "vacuous-integer")')
GUARDS = {'all': {'coalition-near-boundary': 0.1}}


@st.composite
def cases(draw, tier):
    d = D(draw)
    # the batch rules exclude several candidates on an arithmetic argument about pending surpluses: the likeliest way for a
    # coalition to lose a seat it is entitled to, so they get three times the weight
    rules = model.ALL_RULES + ('wigm-prf-batch', 'cfer-batch', 'mpls') * 2 + ('scotland',)     # scotland: ballot-by-ballot transfer, own tie-break by prior stages
    case = draw(gen.election_cases(tier=tier, rules=rules, undeclared_for_mpls=False, equal_for_meek=False, min_cand=3))
    nc = case['ncand']
    el = model.eligible(case)
    # Meek/Warren: the arithmetic's default omega. A coarse explicit omega (omega=0 stops iterating at a total surplus of one
    # whole vote) trades proportionality for speed by the caller's choice; the property's allowance is about rounding only.
    case['options'].pop('omega', None)
    if case['rule'] in ('wigm', 'meek', 'warren') and d.p(15):
        case['options']['display'] = d.choice([0, 0, 1, 2])     # a coarse display must not coarsen the count (comparison tolerance, quota)
    if len(el) >= 3 and d.p(75):
        s = case['nseats']
        # the skewed template needs a coalition of three or more entitled to three or more seats; drawn on purpose, since
        # uniform (size, k) reaches it in under 1 % of cases
        skew = s >= 3 and len(el) >= 4 and d.p(30)
        size = d.int(3 if skew else 2, len(el) - 1)
        S = d.sample(el, size)
        rest = [c for c in range(1, nc + 1) if c not in S]
        n0 = model.nballots(case)
        k = d.int(3, min(s, size)) if skew else d.int(1, min(s, size))
        # coalition size just above / below k quotas of the final total (solve t = k*(n0+t)/(s+1) + eps)
        target = Fraction(k * n0, s + 1 - k) if s + 1 - k > 0 else Fraction(n0)
        base = int(target)
        if s + 1 - k > 0 and (skew or d.p(50)):
            # rules whose quota is a whole number (votes // (seats+1) + 1: mpls, cfer, scotland, integer arithmetic) put the
            # boundary up to k*(s+1)/(s+1-k) ballots higher than the fractional solution
            while not base > k * ((n0 + base) // (s + 1) + 1):
                base += 1
        t = max(1, base + d.int(-1, 2))
        if not skew and d.p(20):
            # tied tail: every member leads one line of the same weight (rotations), so the coalition's members tie exactly -
            # whichever way the tie is broken (or batched), the coalition keeps its entitlement
            m = max(1, -(-t // size))
            order = d.perm(S)
            for j in range(size):
                r = order[j:] + order[:j] + d.sample(rest, d.int(0, len(rest)))
                case['ballots'].append([m, [[c] for c in r]])
            case['tied_tail'] = True
        elif skew:
            # skewed coalition: two strong members share almost all first preferences (both over the quota at once, two
            # surpluses pending together) and the other members lead a handful of ballots each - they survive the early
            # exclusions only if BOTH pending surpluses are credited to them when sure losers are batched
            order = d.perm(S)
            strong, weak = order[:2], order[2:]
            if rest and d.p(40):
                # concentrated opposition: the background ballots that start outside the coalition all lead with one outsider,
                # who then stands between the weak members' own votes plus one surplus and the same plus both
                x = d.choice([c for c in rest if c in el] or rest)
                for bl in case['ballots']:
                    if bl[1] and bl[1][0] and bl[1][0][0] not in S:
                        bl[1] = [[x]] + [rk for rk in bl[1] if rk != [x]]
                case['opposition_concentrated'] = True
            left = t
            for w in weak:
                m = d.int(0, max(1, min(4, t // (8 * len(weak)))))     # a handful at most, so that the strong pair stay over the quota
                if m == 0:
                    continue
                if left - m < 2:
                    break
                left -= m
                r = [w] + d.perm([c for c in S if c != w]) + d.sample(rest, d.int(0, len(rest)))
                case['ballots'].append([m, [[c] for c in r]])
            if d.p(40):
                # the two strong members exactly tied: their surpluses are equal, and which is transferred first is a tie-break
                # (first preferences of the background ballots are levelled out)
                bg = {}
                for m0, r0 in model.kept_ballots(case):
                    bg[r0[0][0]] = bg.get(r0[0][0], 0) + m0
                diff = bg.get(strong[1], 0) - bg.get(strong[0], 0)
                left += (left + diff) % 2
                a = (left + diff) // 2
                if 0 < a < left:
                    case['strong_tied'] = True
                else:
                    a = left // 2
            else:
                a = left // 2 + d.int(-2, 2) if left >= 8 else left // 2
            for lead, m in ((strong[0], a), (strong[1], left - a)):
                if m > 0:
                    tail = d.perm(weak) + [c for c in strong if c != lead] if d.p(60) else d.perm([c for c in S if c != lead])
                    r = [lead] + tail + d.sample(rest, d.int(0, len(rest)))
                    case['ballots'].append([m, [[c] for c in r]])
            case['skewed'] = True
        else:
            lines = d.int(1, 3)
            for j in range(lines):
                m = t // lines + (1 if j < t % lines else 0)
                if m > 0:
                    r = d.perm(S) + d.sample(rest, d.int(0, len(rest)))
                    case['ballots'].append([m, [[c] for c in r]])
    return case


def strategy(tier):
    return cases(tier)


def check(case):
    res = Result()
    rule = case['rule']
    o = drive.run(case)
    if common.failed_run(res, case, o, construct_is_violation=False):
        if o.exc is not None and o.stage == 'count':
            res.skipped = 'count-raises:%s' % type(o.exc).__name__
        return res
    base = common.base_sig(case, o)
    if any(a['tag'] == 'log' and a['msg'].startswith('Stable state detected') for a in o.actions):
        base += '|after-stable-state'
    ar = o.arith
    from ..exact import frac
    q = common.header_quota(o)
    kb = model.kept_ballots(case)
    n = sum(m for m, _ in kb)
    el = model.eligible(case)
    nc = len(el)
    s = case['nseats']
    winners = set(o.elected)
    allow = n * case['ncand'] * 2 * ar.ulp
    # solid support of every prefix set that occurs: a ballot solidly supports S iff its first |S| ranks are exactly S
    solid = {}
    for m, r in kb:
        flat = [rank[0] for rank in r]
        for j in range(1, len(flat) + 1):
            key = frozenset(flat[:j])
            solid[key] = solid.get(key, 0) + m
    near = False
    vac = ar.name == 'integer' and s > 1
    maxline = max(m for m, _ in kb)
    for S, v in solid.items():
        if q <= 0:
            break
        # largest k with v > k*q + allowance
        k = int((Fraction(v) - allow) / q)
        while k >= 0 and not Fraction(v) > k * q + allow:
            k -= 1
        if k < 1:
            continue
        need = min(k, len(S))
        got = len(winners & S)
        if 2 <= len(S) < nc and Fraction(v) <= (k + 1) * q + maxline:
            near = True
        if got < need and not vac:
            res.fail('proportionality', 'proportionality|' + base,
                     'set %s is solidly supported by %d ballots > %d quotas of %s (+%s), but only %d of its candidates are elected (%s)' %
                     (sorted(S), v, k, q, allow, got, sorted(winners)))
            break
    # majority criterion for one seat (every arithmetic, no allowance)
    if s == 1:
        first = {}
        for m, r in kb:
            first[r[0][0]] = first.get(r[0][0], 0) + m
        for c, v in first.items():
            if 2 * v > n and c not in winners:
                res.fail('majority', 'majority|' + base, 'candidate %d is ranked first on %d of %d ballots and loses to %s' % (c, v, n, sorted(winners)))
    res.tag('rule:' + rule)
    if case.get('tied_tail'):
        res.tag('coalition-members-tied')
    if case.get('skewed'):
        res.tag('coalition-two-strong-rest-weak')
    if case.get('strong_tied'):
        res.tag('coalition-two-strong-tied')
    if vac:
        res.tag('vacuous-integer')
    if near:
        res.tag('coalition-near-boundary')
        res.nontrivial = True
    return res


def valid_case(case):
    return model.valid(case) and 'omega' not in (case.get('options') or {})
