"helpers shared by the count-based properties"
import re

from .. import model
from ..exact import frac
from ..drive import exc_sig, ProgressBound


def arith_family(o):
    a = o.arith
    if a is None:
        return 'none'
    if a.cls == 'Guarded':
        return 'guarded-g0' if a.guard == 0 else 'guarded'
    return a.name


def base_sig(case, o):
    return '%s|%s' % (case['rule'], arith_family(o))


def failed_run(res, case, o, clause='run', construct_is_violation=True):
    """handle outcomes that did not complete; returns True if the caller should stop.
    Exceptions while counting are violations of the calling property only where it says so."""
    if o.budget_hit:
        res.skipped = 'wall-clock-watchdog' if o.budget_hit == 'wall-clock' else 'rational-meek-iteration-budget'
        return True
    if o.exc is not None:
        if o.stage in ('profile', 'construct'):
            if construct_is_violation:
                res.fail(clause, '%s|%s|%s|%s' % (clause, case['rule'], o.stage, exc_sig(o.exc)),
                         '%s: %r' % (o.stage, o.exc))
            else:
                res.skipped = 'rejected:%s' % type(o.exc).__name__
            return True
        return True
    return False


def epilogue_msg(msg):
    "elections/defeats of the elect-or-defeat-remaining epilogue (no transfer follows)"
    return 'remaining' in msg or msg.startswith('Elect all') or msg.startswith('Elect pending')


def stats(o):
    "distribution classes of one count, from its decoded actions"
    acts = [a for a in o.actions if a['tag'] != 'log']
    tags = [a['tag'] for a in acts]
    s = dict(
        rounds=max([a['round'] for a in acts] or [0]),
        elects=tags.count('elect'), defeats=tags.count('defeat'), ties=tags.count('tie'),
        transfers=tags.count('transfer'),
        surplus_transfers=sum(1 for a in acts if a['tag'] == 'transfer' and 'urplus' in a['msg']),
        batch=0, epilogue=any(epilogue_msg(a['msg']) for a in acts if a['tag'] in ('elect', 'defeat')),
    )
    run = 0
    for a in acts:
        if a['tag'] == 'defeat' and not epilogue_msg(a['msg']):
            run += 1
            s['batch'] = max(s['batch'], run)
        elif a['tag'] not in ('tie',):
            run = 0
    return s


NAME_RE = re.compile(r': (.*)$')


def named_candidate(o, msg):
    "cid of the candidate named at the end of an elect/defeat message"
    m = NAME_RE.search(msg)
    if not m:
        return None
    name = m.group(1)
    hits = [cid for cid, nm in o.names.items() if nm == name]
    return hits[0] if len(hits) == 1 else None


# ------------------------------------------------------------------ history helpers

def nonlog(o):
    "[(index in record, decoded action)] without log entries"
    return [(i, a) for i, a in enumerate(o.actions) if a['tag'] != 'log']


def name2cid(o):
    return {nm: cid for cid, nm in o.names.items()}


TIE_RE = re.compile(r'^Break tie(?: by (prior stage|lot))? \(([^)]*)\): \[(.*)\] -> (.*)$')


def parse_tie(o, msg):
    "-> dict(how, reason, tied=[cid], chosen=cid) or None"
    m = TIE_RE.match(msg)
    if not m:
        return None
    n2c = name2cid(o)
    try:
        tied = [n2c[x] for x in m.group(3).split(', ')]
        chosen = n2c[m.group(4)]
    except KeyError:
        return None
    return dict(how=m.group(1), reason=m.group(2), tied=tied, chosen=chosen)


SURPLUS_RE = re.compile(r'^(?:Surplus transferred|Transfer surplus): (.*) \(([^()]*)\)$')
DEFEATED_RE = re.compile(r'^Transfer defeated: (.*)$')
ELECTED_RE = re.compile(r'^Transfer elected: (.*) \(([^()]*)\)$')


def parse_transfer(o, msg):
    "-> ('surplus', [cid], amount text) | ('defeated', [cids], None) | ('elected', [cid], text) | None"
    n2c = name2cid(o)
    m = SURPLUS_RE.match(msg)
    if m and m.group(1) in n2c:
        return 'surplus', [n2c[m.group(1)]], m.group(2)
    m = DEFEATED_RE.match(msg)
    if m:
        try:
            return 'defeated', [n2c[x] for x in m.group(1).split(', ')], None
        except KeyError:
            return None
    m = ELECTED_RE.match(msg)
    if m and m.group(1) in n2c:
        return 'elected', [n2c[m.group(1)]], m.group(2)
    return None


def reaches(ar, vote, quota):
    "does a tally reach the quota, as the arithmetic in use defines it (> when the rules treat it as exact)"
    if ar.exact_flag:
        return ar.gt(vote, quota)
    return ar.ge(vote, quota)


def header_quota(o):
    "the count's first quota: the record header's, or (when the header is absent - C18 judges that) the first counted action's"
    if 'quota' in o.record:
        return frac(o.record['quota'])
    return next(a['quota'] for a in o.actions if a['tag'] != 'log')


def arithmetic_not_as_requested(case, ar):
    """wigm/meek/warren force nothing: an arithmetic, precision or guard the caller asks for explicitly is the one the count
    must run with (integer = zero places whatever precision is given).  Returns a description of the mismatch or None."""
    if case['rule'] not in ('wigm', 'meek', 'warren') or case.get('file_options'):
        return None
    o = case.get('options') or {}
    a = o.get('arithmetic')
    if a is None:
        return None
    p, g = o.get('precision'), o.get('guard')
    want = None
    if a == 'integer':
        want = ('Fixed', 0, None)
    elif a == 'fixed':
        want = ('Fixed', p, None)
    elif a == 'guarded':
        want = ('Guarded', p, g)
    elif a == 'rational':
        want = ('Rational', None, None)
    if want is None:
        return None
    got = (ar.cls, ar.precision, ar.guard)
    for w, h, what in zip(want, got, ('class', 'precision', 'guard')):
        if w is not None and isinstance(w, (int, str)) and not isinstance(w, bool) and str(w) != str(h):
            return 'asked for arithmetic=%s precision=%s guard=%s, the count runs with %s precision=%s guard=%s' % (a, p, g, ar.cls, ar.precision, ar.guard)
    return None
