"""C19 - an interrupted count can always be reported, as a prefix of the full count

Fault enumeration: every executed line of package code during Election.count() is a crash point;
a KeyboardInterrupt is raised from a sys.settrace hook at the k-th line event - inside count(),
exactly what Droop.main catches.

case = {'case': election case, 'ks': [floats in (0,1)] drawn crash points beyond the start-up prefix,
        'order': permutation of the three renderers, 'all': True to enumerate every crash point}
"""
import io
import json
import os
import sys

from hypothesis import strategies as st

from .. import gen, model, drive, REPO
from ..gen import D
from ..run import Result
from ..drive import exc_sig

ID = 'C19'
LEVEL = 'fault_enumeration'
N = {'quick': 160, 'thorough': 132}
SHARDS = {'quick': 16, 'thorough': 66}
RULE = ('for a generated election under each of the 11 rules, crash points = line events executed in droop/ during Election.count(); quick: every '
        'crash point up to the first recorded non-log action plus 150 drawn later ones per election; thorough: every crash point (exhaustive per '
        'election); evaluations = crash points tried; non-trivial = crash point before the record header is filled, or strictly inside a round '
        '(between two recorded actions); distinct_nontrivial counts distinct elections having such crash points, the crash points themselves are counted in classes')
TECHNIQUE = 'fault injection enumerated over crash points (sys.settrace line events) with a prefix-relation oracle against the uninterrupted record'
LEVEL_TEXT = 'KeyboardInterrupt injected at enumerated line-granular crash points of generated counts; renderers must be total and the record a prefix'
LEVEL_NOTE = 'line granularity under CPython 3.12 tracing; interrupts between two bytecodes of one line or inside C code are not reachable'
MARK = '** count interrupted; this round is incomplete **'
PERMS = [(0, 1, 2), (1, 2, 0), (2, 0, 1), (0, 2, 1), (1, 0, 2), (2, 1, 0)]
_DROOP = os.path.join(os.path.realpath(REPO), 'droop') + os.sep


@st.composite
def cases(draw, tier):
    d = D(draw)
    case = draw(gen.election_cases(tier='quick', equal_for_meek=True, rational=False))
    if case['rule'] in ('meek', 'warren') and d.p(25):
        # numerals as a command line may deliver them: accepted by int(), but still strings while the count starts (F24)
        o = dict(case['options'])
        k = o.get('omega', 3 if o.get('arithmetic') == 'fixed' and o.get('precision', 9) < 6 else 5)
        if isinstance(k, int) and (o.get('arithmetic') != 'guarded' or k <= o.get('precision', 18)):
            o['omega'] = d.choice(['+%d', ' %d', '%d ', '0%d']) % k
            case['options'] = o
    nk = 150 if tier == 'quick' else 0
    ks = [d.int(1, 80) if d.p(20) else d.int(0, 10 ** 6) for _ in range(nk)]     # a fifth of the points fall into the preamble of the count
    return dict(case=case, ks=ks, order=d.perm([0, 1, 2]), all=(tier == 'thorough'))


def strategy(tier):
    return cases(tier)


class Tracer:
    def __init__(self, k):
        self.k = k
        self.n = 0
        self.where = None

    def glob(self, frame, event, arg):
        if frame.f_code.co_filename.startswith(_DROOP):
            return self.local
        return None

    def local(self, frame, event, arg):
        if event == 'line':
            self.n += 1
            if self.n == self.k:
                self.where = '%s:%d' % (os.path.basename(frame.f_code.co_filename), frame.f_lineno)
                raise KeyboardInterrupt()
        return self.local


def traced_count(case, k, marks=None):
    "build the election, count it with an interrupt at line event k (None = never); -> (E, interrupted, tracer)"
    text, profile, E = drive.build(case)
    budget = drive.budget_prog(E, [0])     # deterministic budget for rational Meek (raises drive.BudgetExceeded)
    console = E.prog                       # droop's own progress output: its lines are crash points like any other

    def prog(msg):
        budget(msg)
        console(msg)
    E.prog = prog
    tr = Tracer(k)
    if marks is not None:
        # record the line-event count at which each action is appended (only for the uninterrupted reference run)
        orig = E.erecord.action

        def action(tag, msg):
            orig(tag, msg)
            marks.append((tr.n, tag, E.round))
        E.erecord.action = action
    intr = False
    stdout, sys.stdout = sys.stdout, io.StringIO()      # (the progress dots)
    sys.settrace(tr.glob)
    try:
        try:
            E.count()
        except KeyboardInterrupt:
            intr = True
    finally:
        sys.settrace(None)
        sys.stdout = stdout
    return E, intr, tr


class CliTracer(Tracer):
    "counts line events only once Election.count() has been entered (main() parses and constructs first)"

    def __init__(self, k):
        Tracer.__init__(self, k)
        self.armed = False

    def glob(self, frame, event, arg):
        fn = frame.f_code.co_filename
        if not self.armed and frame.f_code.co_name == 'count' and fn.endswith('election.py') and fn.startswith(_DROOP):
            self.armed = True
        if self.armed and fn.startswith(_DROOP):
            return self.local
        return None


def cli_interrupted(case, k):
    "the same interrupt delivered through the command-line driver Droop.main(), which is what catches it in real use"
    import tempfile
    import Droop
    from droop.election import Election
    fd, path = tempfile.mkstemp(prefix='c19-', suffix='.blt')
    saved = Election.__dict__['prog']
    try:
        with os.fdopen(fd, 'w', encoding='utf-8') as f:
            f.write(model.render(case))
        opts = dict(case.get('options') or {})
        opts.update(path=path, rule=case['rule'], dump=True, json=True)
        tr = CliTracer(k)
        stdout, sys.stdout = sys.stdout, io.StringIO()      # droop's own prog() runs, its dots go nowhere
        sys.settrace(tr.glob)
        try:
            out = Droop.main(opts)
        finally:
            sys.settrace(None)
            sys.stdout = stdout
        return out, tr
    finally:
        Election.prog = saved
        os.unlink(path)


def check_cli(res, case, k, full, base):
    try:
        out, tr = cli_interrupted(case, k)
    except KeyboardInterrupt:
        res.fail('cli', 'cli|interrupt-escapes|' + base, 'Droop.main lets the interrupt at line event %d escape' % k)
        return
    except Exception as e:      # pylint: disable=broad-except
        res.fail('cli', 'cli|raises|%s|%s' % (base, exc_sig(e)), 'Droop.main raises %r after an interrupt at line event %d' % (e, k))
        return
    if tr.where is None:
        return      # the count finished before event k (cannot happen for k <= total)
    if 'terminated prematurely' not in out or out.count(MARK) != 3:
        res.fail('cli', 'cli|marker|' + base, 'Droop.main output after an interrupt at %s: banner %s, marker x%d (expected once each in report, dump, JSON)' %
                 (tr.where, 'terminated prematurely' in out, out.count(MARK)))
        return
    i = out.find('\n{\n')
    try:
        js = json.loads(out[i + 1:])
    except ValueError as e:
        res.fail('cli', 'cli|json-invalid|' + base, 'interrupt at %s: %r' % (tr.where, e))
        return
    body = js.get('actions', [])[:-1]
    if body != full[:len(body)]:
        res.fail('cli', 'cli|not-a-prefix|' + base, 'Droop.main after an interrupt at %s: actions are not a prefix of the full record' % tr.where)


def check(wrapper):
    res = Result()
    res.evals = 0
    case = wrapper['case']
    rule = case['rule']
    marks = []
    try:
        E0, intr0, tr0 = traced_count(case, None, marks)
    except drive.BudgetExceeded:
        res.skipped = 'rational-meek-iteration-budget'
        res.evals = 1
        return res
    except Exception as e:      # pylint: disable=broad-except
        res.skipped = 'reference-run-fails:%s' % type(e).__name__
        res.evals = 1
        return res
    total = tr0.n
    full = json.loads(E0.json())['actions']
    first_action = next((n for n, tag, _ in marks if tag != 'log'), total)
    if wrapper.get('all'):
        points = list(range(1, total + 1))
    else:
        points = list(range(1, min(first_action, total) + 1))
        span = max(1, total - first_action)
        points += sorted(set(first_action + 1 + (k % span) for k in wrapper['ks']))
    if wrapper.get('points'):
        points = wrapper['points']
    names = ['report', 'dump', 'json']
    order = wrapper.get('order') or [0, 1, 2]
    base = rule
    # position classes: before the header is filled / strictly inside a round
    bounds = [n for n, tag, _ in marks]
    inside = prefix = ncli = 0
    for k in points:
        if k > total:
            continue
        res.evals += 1
        try:
            E, intr, tr = traced_count(case, k)
        except drive.BudgetExceeded:
            continue
        except Exception as e:      # pylint: disable=broad-except
            res.fail('count-raises', 'count-raises|%s|%s' % (base, exc_sig(e)), 'crash point %d: %r' % (k, e))
            break
        if not intr:
            res.fail('not-interrupted', 'not-interrupted|' + base, 'crash point %d of %d did not interrupt' % (k, total))
            break
        where = tr.where
        out = {}
        bad = False
        # every crash point uses one of the six renderer orders, rotating with k (the drawn order only sets the phase)
        korder = PERMS[(k + order[0] * 2 + (1 if order[1] > order[2] else 0)) % 6]
        for j in korder:
            nm = names[j]
            try:
                out[nm] = getattr(E, nm)(True)
            except Exception as e:      # pylint: disable=broad-except
                res.fail('renderer-raises', 'renderer-raises|%s|%s|%s' % (nm, 'before-header' if k <= first_action else 'later', exc_sig(e)),
                         '%s: interrupted at line event %d (%s), %s(True) raises %r' % (rule, k, where, nm, e))
                bad = True
                break
            if not isinstance(out[nm], str):
                res.fail('renderer-type', 'renderer-type|' + nm, '%s(True) returns %r' % (nm, type(out[nm])))
                bad = True
        if k <= first_action:
            prefix += 1
        elif k not in bounds:
            inside += 1
        if bad:
            break
        if k % 7 == 3 and not wrapper.get('nocli'):
            ncli += 1
            check_cli(res, case, k, full, base)
            if res.violations:
                break
        if 'terminated prematurely' not in out['report']:
            res.fail('banner', 'banner|' + base, 'report of an interrupted count (event %d, %s) lacks the banner' % (k, where))
            break
        if out['dump'].count(MARK) != 1:
            res.fail('marker', 'marker|dump|' + base, 'dump carries the interrupt marker %d times (event %d, %s)' % (out['dump'].count(MARK), k, where))
            break
        try:
            js = json.loads(out['json'])
        except ValueError as e:
            res.fail('json-invalid', 'json-invalid|' + base, 'event %d (%s): %r' % (k, where, e))
            break
        acts = js.get('actions', [])
        nmark = sum(1 for a in acts if a.get('msg') == MARK)
        if nmark != 1 or not acts or acts[-1].get('msg') != MARK:
            res.fail('marker', 'marker|json|' + base, 'JSON carries the interrupt marker %d times (event %d, %s)' % (nmark, k, where))
            break
        body = acts[:-1]
        if body != full[:len(body)]:
            i = next((i for i, (x, y) in enumerate(zip(body, full)) if x != y), len(full))
            res.fail('not-a-prefix', 'not-a-prefix|' + base, 'interrupted at event %d (%s): action %d differs from the uninterrupted record' % (k, where, i))
            break
        if len(body) >= len(full) and len(full) > 0 and full[-1].get('tag') == 'end' and k < total - 3:
            pass
    res.tag('rule:' + rule)
    if prefix:
        res.tag('crash-before-header')
    if inside:
        res.tag('crash-inside-round')
    res.count('crash points before the header is filled', prefix)
    res.count('crash points strictly inside a round', inside)
    res.count('crash points also delivered through Droop.main', ncli)
    res.nontrivial = bool(prefix or inside)
    return res


def shrink_candidates(wrapper):
    from ..shrink import election_candidates
    # first pin the failing crash point, then shrink the election under "some crash point fails"
    if wrapper.get('ks') or wrapper.get('all'):
        yield dict(wrapper, ks=[], all=False)
    pts = wrapper.get('points')
    if pts and len(pts) > 1:
        yield dict(wrapper, points=pts[:len(pts) // 2])
        yield dict(wrapper, points=pts[len(pts) // 2:])
    for c in election_candidates(wrapper['case']):
        w = dict(wrapper, case=c)
        w.pop('points', None)
        yield w


def valid_case(wrapper):
    return model.valid(wrapper['case'])
