"""C13 - guarded arithmetic: tolerance law, guard=0 is fixed, quasi-exact equals exact

case kinds
  law    {'p','g','a','b'}                 comparison law on raw pairs
  ops    {'p','a','b','c','k'}             Guarded(p,0) vs Fixed(p), every operation
  count0 {'case', 'p'}                     a count under guarded guard=0 vs fixed, same precision
  countq {'case'}                          a count under guarded (g >= 1) vs rational
"""
import itertools
import re
from fractions import Fraction

from hypothesis import strategies as st

from .. import gen, model, drive
from ..exact import frac
from ..run import Result
from ..gen import D
from . import common

from droop.options import Options
from droop.values.fixed import Fixed
from droop.values.guarded import Guarded

ID = 'C13'
LEVEL = 'exploration'
N = {'quick': 36000, 'thorough': 900000}
RULE = ('(law) raw pairs with differences drawn around the tolerance x (p,g); (ops) operand tuples through Guarded(p,0) and Fixed(p); '
        '(count0) wigm/meek/warren counts under guarded guard=0 vs fixed; (countq) guarded g>=1 vs rational counts whose own '
        'maxDiff/minDiff statistics are far from the tolerance (a quarter of them near-tie elections at precision 1-3); non-trivial = |difference| within 2 of the tolerance (law), inexact '
        'result (ops), a count with a fractional transfer or >= 2 Meek iterations (counts)')
TECHNIQUE = 'property-based testing: trichotomy/tolerance law on generated pairs; differential Guarded(g=0) vs Fixed; differential guarded vs rational counts'
LEVEL_TEXT = 'generated operand pairs (exhaustive for guard <= 2 in the thorough tier) and two differential oracles over generated counts'
LEVEL_NOTE = ('"near the tolerance" is read from the count\'s own arithmetic_report: maxDiff*10^3 < geps and minDiff > geps*10^3; '
              'rational Meek limited to 12 iterations')
MAX_REPORT = 8


@st.composite
def cases(draw, tier):
    d = D(draw)
    t = d.int(0, 9)
    if t <= 3:
        p = d.int(0, 18)
        g = d.int(0, 12)
        geps = max(1, 10 ** g // 2)
        a = d.int(-10 ** 6, 10 ** 6) if d.p(70) else d.int(-10 ** 40, 10 ** 40)
        k = d.int(0, 5)
        delta = [0, geps - 2, geps - 1, geps, geps + 1, geps + 2][k] if d.p(70) else d.int(0, 10 ** (g + 3))
        if d.p(50):
            delta = -delta
        return dict(kind='law', p=p, g=g, a=a, b=a + delta)
    if t <= 5:
        p = d.int(0, 6) if d.p(70) else d.int(0, 24)
        rv = lambda: d.int(-3000, 3000) if d.p(60) else d.int(-10 ** 30, 10 ** 30)
        return dict(kind='ops', p=p, a=rv(), b=rv(), c=rv(), k=d.int(-40, 40))
    if t <= 7:
        case = draw(gen.election_cases(tier='quick', rules=('wigm', 'meek', 'warren'), equal_for_meek=True, default_options=True))
        p = d.int(1, 12) if case['rule'] != 'wigm' else d.int(0, 12)
        o = {'precision': p}
        if case['rule'] == 'wigm':
            if d.p(30):
                o['integer_quota'] = True
            if d.p(30):
                o['defeat_batch'] = 'zero'
        else:
            o['omega'] = d.int(0, p)
            if d.p(30):
                o['defeat_batch'] = 'none'
        if d.p(20):
            o['display'] = d.int(0, p)
        case['options'] = o
        return dict(kind='count0', case=case)
    if d.p(25):
        # tallies a few thousandths apart at a coarse precision: comparisons near the tolerance do occur and the count's own
        # statistics have to own up to them (only then is "far from the tolerance" worth anything)
        case = gen.near_tie_case(d)
        p = d.int(1, 3)
        g = d.int(1, 5)
    else:
        case = draw(gen.election_cases(tier='quick', rules=('wigm', 'meek', 'warren'), equal_for_meek=True, default_options=True))
        p = d.int(1, 3) if d.p(20) else d.int(2, 18)
        g = d.int(1, 12)
    o = {'precision': p, 'guard': g}
    if case['rule'] != 'wigm':
        o['omega'] = d.int(0, p // 2)
        if d.p(30):
            o['defeat_batch'] = 'none'
    elif d.p(30):
        o['defeat_batch'] = 'zero'
    case['options'] = o
    return dict(kind='countq', case=case)


def strategy(tier):
    return cases(tier)


def extra_chunks(tier, seed):
    if tier == 'quick':
        return [(0, 0), (1, 1)]
    return [(p, g) for p in (0, 1, 3) for g in (0, 1, 2)]


def extra_cases(tier, seed, chunk):
    p, g = chunk
    lim = 12 if tier == 'quick' else 60 + 10 ** g
    for a, b in itertools.product(range(-3, 4), range(-lim, lim + 1)):
        yield dict(kind='law', p=p, g=g, a=a, b=b)


def check(case):
    return {'law': check_law, 'ops': check_ops, 'count0': check_count0, 'countq': check_countq}[case['kind']](case)


def check_law(case):
    res = Result()
    p, g, ra, rb = case['p'], case['g'], case['a'], case['b']
    Guarded.initialize(Options({'arithmetic': 'guarded', 'precision': p, 'guard': g}))
    x, y = Guarded(ra, True), Guarded(rb, True)
    geps = max(1, 10 ** g // 2)
    diff = abs(ra - rb)
    want_eq = diff < geps
    want = dict(eq=want_eq, ne=not want_eq,
                lt=(not want_eq) and ra < rb, gt=(not want_eq) and ra > rb,
                le=want_eq or ra < rb, ge=want_eq or ra > rb)
    got = dict(eq=x == y, ne=x != y, lt=x < y, gt=x > y, le=x <= y, ge=x >= y)
    res.evals = 6
    for k in want:
        if got[k] is not want[k]:
            res.fail('law', 'law|%s' % k, 'p=%d g=%d a=%d b=%d (|diff|=%d, geps=%d): %s is %r' % (p, g, ra, rb, diff, geps, k, got[k]))
    if [got['lt'], got['eq'], got['gt']].count(True) != 1:
        res.fail('law', 'law|trichotomy', 'p=%d g=%d a=%d b=%d: lt/eq/gt = %r' % (p, g, ra, rb, (got['lt'], got['eq'], got['gt'])))
    if (x._value, y._value) != (ra, rb):
        res.fail('law', 'law|mutation', 'comparison changed an operand')
    res.nontrivial = abs(diff - geps) <= 2
    res.tag('law')
    if res.nontrivial:
        res.tag('law-near-tolerance')
    return res


def _ops(V, x, y, z, k):
    "name -> thunk, for a value class V"
    ops = dict(
        add=lambda: x + y, sub=lambda: x - y, mul=lambda: x * y, truediv=lambda: x / y, floordiv=lambda: x // y,
        addint=lambda: x + k, subint=lambda: x - k, mulint=lambda: x * k, floordivint=lambda: x // k,
        neg=lambda: -x, pos=lambda: +x, abs=lambda: abs(x), bool=lambda: bool(x),
        lt=lambda: x < y, le=lambda: x <= y, eq=lambda: x == y, ne=lambda: x != y, ge=lambda: x >= y, gt=lambda: x > y,
        min=lambda: V.min([x, y, z]), str=lambda: str(x), ctor=lambda: V(k),
    )
    for mode in ('up', 'down'):
        ops['mul-' + mode] = lambda mode=mode: V.mul(x, y, round=mode)
        ops['div-' + mode] = lambda mode=mode: V.div(x, y, round=mode)
        ops['muldiv-' + mode] = lambda mode=mode: V.muldiv(x, y, z, round=mode)
        ops['mulint-' + mode] = lambda mode=mode: V.mul(x, k, round=mode)
    return ops


def _val(f):
    try:
        v = f()
    except ZeroDivisionError:
        return 'ZeroDivisionError'
    except Exception as e:      # pylint: disable=broad-except
        return 'exc:' + type(e).__name__
    if hasattr(v, '_value'):
        return ('raw', v._value)
    return v


def check_ops(case):
    res = Result()
    p = case['p']
    Guarded.initialize(Options({'arithmetic': 'guarded', 'precision': p, 'guard': 0}))
    Fixed.initialize(Options({'arithmetic': 'fixed', 'precision': p}) if p else Options({'arithmetic': 'integer'}))
    if Guarded.exact or Guarded.quasi_exact or Guarded.epsilon._value != 1:
        res.fail('flags', 'ops|flags', 'guard=0 leaves exact=%r quasi_exact=%r' % (Guarded.exact, Guarded.quasi_exact))
    ra, rb, rc, k = case['a'], case['b'], case['c'], case['k']
    go = _ops(Guarded, Guarded(ra, True), Guarded(rb, True), Guarded(rc, True), k)
    fo = _ops(Fixed, Fixed(ra, True), Fixed(rb, True), Fixed(rc, True), k)
    res.evals = 0
    S = 10 ** p
    for name in go:
        res.evals += 1
        gv, fv = _val(go[name]), _val(fo[name])
        if name == 'str' and p == 0:
            # numeral layout at zero digits is C14's subject: compare the denoted number
            ok = isinstance(gv, str) and isinstance(fv, str) and Fraction(gv) == Fraction(fv)
        else:
            ok = gv == fv
        if not ok:
            res.fail('ops', 'ops|%s' % name, 'p=%d a=%d b=%d c=%d k=%d: guarded(g=0) %r, fixed %r' % (p, ra, rb, rc, k, gv, fv))
    res.nontrivial = (ra * rb) % S != 0 or min(ra, rb, rc) < 0
    res.tag('ops')
    return res


def _strip(o, with_msg):
    out = []
    for a in o.actions:
        a2 = dict(a)
        if not with_msg:
            a2.pop('msg', None)
        out.append(a2)
    return out


def check_count0(wrapper):
    res = Result()
    case = wrapper['case']
    p = case['options']['precision']
    cg = dict(case, options=dict(case['options'], arithmetic='guarded', guard=0))
    cf = dict(case, options=dict(case['options'], arithmetic='fixed'))
    og = drive.run(cg, renders=True)
    dump_g = og.dump
    of = drive.run(cf, renders=True)
    base = 'count0|%s' % case['rule']
    if og.budget_hit or of.budget_hit:
        res.skipped = 'budget'
        return res
    eg = type(og.exc).__name__ if og.exc else None
    ef = type(of.exc).__name__ if of.exc else None
    if eg != ef or og.stage != of.stage:
        res.fail('count0', base + '|outcome', 'guarded g=0: %s/%s, fixed: %s/%s' % (og.stage, eg, of.stage, ef))
        return res
    if og.exc is not None:
        res.skipped = 'both-raise:%s' % eg
        return res
    with_msg = p >= 1
    if _strip(og, with_msg) != _strip(of, with_msg):
        n = next((i for i, (a, b) in enumerate(zip(_strip(og, with_msg), _strip(of, with_msg))) if a != b), None)
        res.fail('count0', base + '|actions', 'records differ at action %s: %r' % (n, og.actions[n]['msg'] if n is not None else 'length'))
    elif (og.elected, og.defeated) != (of.elected, of.defeated):
        res.fail('count0', base + '|winners', '%r vs %r' % (og.elected, of.elected))
    elif p >= 1 and dump_g != of.dump:
        res.fail('count0', base + '|dump', 'dump differs')
    st = common.stats(of)
    res.nontrivial = bool(st['surplus_transfers']) or of.iterations >= 2
    res.tag('count0', 'count0:' + case['rule'])
    return res


STAT = re.compile(r'maxDiff:\s*(\d+).*?geps:\s*(\d+).*?minDiff:\s*(\d+)', re.S)


def check_countq(wrapper):
    res = Result()
    case = wrapper['case']
    p, g = case['options']['precision'], case['options']['guard']
    cg = dict(case, options=dict(case['options'], arithmetic='guarded'))
    cr = dict(case, options={k: v for k, v in case['options'].items() if k not in ('precision', 'guard')})
    cr['options']['arithmetic'] = 'rational'
    og = drive.run(cg)
    if not og.ok or og.stage != 'done':
        res.skipped = 'guarded-count-failed' if og.exc else 'budget'
        return res
    rep = og.record.get('arithmetic_report') or ''
    m = STAT.search(rep)
    if not m:
        res.fail('countq', 'countq|no-statistics', 'no arithmetic_report for a guarded count')
        return res
    maxd, geps, mind = (int(x) for x in m.groups())
    far = maxd * 1000 < geps and mind > geps * 1000
    orr = drive.run(cr)
    if orr.budget_hit:
        res.skipped = 'rational-meek-iteration-budget'
        return res
    if orr.exc is not None:
        res.skipped = 'rational-count-failed'
        return res
    res.tag('countq', 'countq:' + case['rule'])
    if not far:
        res.tag('countq-near-tolerance(not asserted)')
        return res
    base = 'countq|%s' % case['rule']
    ag = [a for a in og.actions if a['tag'] != 'log']
    ar = [a for a in orr.actions if a['tag'] != 'log']
    seq = lambda acts: [(a['tag'], tuple(sorted((c, s['state'], bool(s.get('pending'))) for c, s in a['cstate'].items()))) for a in acts]
    if seq(ag) != seq(ar):
        res.fail('countq', base + '|sequence', 'action/status sequence differs from the exact count (maxDiff=%d geps=%d minDiff=%d)' % (maxd, geps, mind))
        return res
    ulp = Fraction(1, 10 ** p)
    worst = Fraction(0)
    for a, b in zip(ag, ar):
        worst = max(worst, abs(a['quota'] - b['quota']))
        for c, s in a['cstate'].items():
            if 'vote' in s:
                worst = max(worst, abs(s['vote'] - b['cstate'][c]['vote']))
    if worst > ulp:
        n = og.nballots
        # identity of known finding F14 (classification only, not an oracle tolerance): truncation errors of one ulp per operation,
        # about n*ncand operations per step, damped by the iteration's contraction (margin 64); with >= 5 guard digits on
        # small elections this bound is below 10^-p, so there every deviation is reported as new
        bound = Fraction(64 * n * case['ncand'] * max(1, og.iterations, len(ag)), 10 ** (p + g))
        kind = 'within-truncation-bound' if worst <= bound else 'beyond-truncation-bound'
        res.fail('countq', base + '|deviation|' + kind,
                 'p=%d g=%d: largest tally/quota deviation %s > 10^-p (accumulated-truncation bound %s)' % (p, g, float(worst), float(bound)))
    st = common.stats(og)
    res.nontrivial = st['surplus_transfers'] >= 2 or og.iterations >= 2
    res.tag('countq-far')
    return res


def shrink_candidates(case):
    from ..shrink import election_candidates
    if 'case' in case:
        for c in election_candidates(case['case']):
            if 'precision' in c.get('options', {}) and (case['kind'] == 'count0' or 'guard' in c['options']):
                yield dict(case, case=c)
        return
    for key in ('a', 'b', 'c', 'k', 'p', 'g'):
        v = case.get(key)
        if isinstance(v, int):
            for v2 in (0, 1, -1, v // 2, v // 10, v - 1 if v > 0 else v + 1):
                if v2 != v and abs(v2) <= abs(v) and not (key in ('p', 'g') and v2 < 0):
                    yield dict(case, **{key: v2})


def valid_case(case):
    if 'case' in case:
        c = case['case']
        if not model.valid(c):
            return False
        if case['kind'] == 'count0' and c['rule'] != 'wigm' and c['options'].get('precision', 0) < 1:
            return False
        if case['kind'] == 'countq' and (c['options'].get('guard', 0) < 1 or c['options'].get('precision', 0) < 1
                                          or c['options'].get('omega', 0) > c['options']['precision'] // 2):
            return False
        if c['rule'] != 'wigm' and c['options'].get('omega', 0) > c['options'].get('precision', 0):
            return False
    return True
