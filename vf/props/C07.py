"""C07 - only lowest candidates or sure losers are excluded; ties follow the tie order"""
from fractions import Fraction

from hypothesis import strategies as st

from .. import gen, model, drive
from ..gen import D
from ..run import Result
from . import common

ID = 'C07'
LEVEL = 'exploration'
N = {'quick': 32000, 'thorough': 800000}
RULE = ('tie-rich generated elections (mirrored ballots, zero-vote clusters), every tie-break order, all rules x accepted options; '
        'oracle A at every exclusion / surplus choice / tie action, oracle B (metamorphic) re-runs tie-free counts with another tie order; '
        'non-trivial = a logged tie, or a batch of >= 2, or (B) a tie-free count with >= 2 exclusions; distinct = distinct case JSON')
TECHNIQUE = 'property-based testing: invariant at each exclusion/surplus/tie decision from the preceding snapshot; metamorphic re-run with a different tie order'
LEVEL_TEXT = 'every decision of every generated count is re-derived from the recorded tallies; tie-free counts are re-run under a fresh tie order'
LEVEL_NOTE = ('Scottish prior-stage rule is read as: walk back through the round snapshots, at each keep the whole tied group, stop at the first stage '
              'with a unique extreme (DESIGN section 6); guarded comparisons within 2*geps of each other are not asserted')
GUARDS = {'all': {'tie-logged': 0.08, 'batch>=2': 0.02}}


@st.composite
def cases(draw, tier):
    d = D(draw)
    if d.p(5):
        case = gen.scotland_prior_stage_case(d) if d.p(60) else gen.scotland_threeway_case(d)
        case['tie2'] = d.perm(range(1, 7))
        return case
    case = draw(gen.election_cases(tier=tier))
    nc = case['ncand']
    if case['tie'] is None and d.p(70):
        case['tie'] = d.perm(range(1, nc + 1))
    case['tie2'] = d.perm(range(1, nc + 1))
    # more exact ties: duplicate a ballot line with two candidates swapped
    if nc >= 2 and d.p(60):
        for _ in range(d.int(1, 2)):
            m, r = d.choice(case['ballots'])
            x, y = d.sample(range(1, nc + 1), 2)
            sw = {x: y, y: x}
            case['ballots'].append([m, [[sw.get(c, c) for c in rank] for rank in r]])
    return case


def strategy(tier):
    return cases(tier)


def shrink_candidates(case):
    from ..shrink import election_candidates
    for c in election_candidates(case):
        if c['ncand'] != case['ncand']:
            c['tie2'] = list(range(c['ncand'], 0, -1))
        yield c


def valid_case(case):
    return model.valid(case) and sorted(case.get('tie2') or []) == list(range(1, case['ncand'] + 1))


def tie_rank(case):
    tie = case.get('tie') or list(range(1, case['ncand'] + 1))
    return {c: i for i, c in enumerate(tie)}


def check(case):
    res = Result()
    rule = case['rule']
    o = drive.run(case)
    if common.failed_run(res, case, o, construct_is_violation=False):
        if not (o.exc is not None and o.stage == 'count'):
            return res
        res.skipped = 'count-raises:%s' % type(o.exc).__name__
    base = common.base_sig(case, o)
    ar = o.arith
    acts = [a for _, a in common.nonlog(o)]
    trank = tie_rank(case)
    und = set(case.get('undeclared') or []) if rule == 'mpls' else set()
    meek = rule in model.MEEK
    key = 'quotient' if rule == 'qpq' else 'vote'
    s_seats = case['nseats']
    near = [False]

    def eq(a, b):
        if ar.cls == 'Guarded' and 0 < abs(a - b) < 2 * ar.geps:
            near[0] = True
        return ar.eq(a, b)

    def lt(a, b):
        if ar.cls == 'Guarded' and 0 < abs(a - b) < 2 * ar.geps:
            near[0] = True
        return ar.lt(a, b)

    def preceding_tie(pos):
        "the tie action immediately before acts[pos] (skipping nothing)"
        if pos >= 1 and acts[pos - 1]['tag'] == 'tie':
            return common.parse_tie(o, acts[pos - 1]['msg'])
        return None

    round_snaps = []        # snapshots of the 'round' actions (Scottish prior-stage search)
    nties = 0
    maxbatch = 0
    ndefeats = 0
    pos = 0
    while pos < len(acts):
        a = acts[pos]
        if a['tag'] == 'round':
            round_snaps.append(a)
        if a['tag'] == 'tie':
            nties += 1
            t = common.parse_tie(o, a['msg'])
            if t is None:
                res.fail('tie-unparsed', 'tie-unparsed|' + base, a['msg'])
            else:
                nxt = acts[pos + 1] if pos + 1 < len(acts) else None
                if nxt is None or nxt['tag'] not in ('defeat', 'unpend', 'elect'):
                    res.fail('tie-dangling', 'tie-dangling|' + base, 'tie action not followed by a decision: %s' % a['msg'])
        # ---------------- exclusions
        if a['tag'] == 'defeat' and not common.epilogue_msg(a['msg']):
            run = []
            j = pos
            while j < len(acts) and acts[j]['tag'] == 'defeat' and not common.epilogue_msg(acts[j]['msg']):
                run.append(common.named_candidate(o, acts[j]['msg']))
                j += 1
            ndefeats += len(run)
            # snapshot before the decision: the previous action (a tie action carries the same state)
            before = acts[pos - 1] if pos >= 1 else a
            bcs = before['cstate']
            hop = [c for c, s in bcs.items() if s['state'] == 'hopeful']
            chosen = run
            if None in run:
                res.fail('defeat-unparsed', 'defeat-unparsed|' + base, a['msg'])
                pos = j
                continue
            if meek:
                surplus = before.get('surplus', Fraction(0))
                if surplus < 0:
                    surplus = Fraction(0)
            elif rule == 'qpq':
                surplus = Fraction(0)
            elif rule == 'mpls':
                surplus = sum((max(Fraction(0), bcs[c]['vote'] - before['quota']) for c in bcs
                               if bcs[c]['state'] in ('hopeful', 'elected') and c not in und), Fraction(0))
            else:
                surplus = sum((bcs[c]['vote'] - before['quota'] for c in bcs
                               if bcs[c]['state'] == 'elected' and bcs[c].get('pending')), Fraction(0))
            declared_run = [c for c in run if not (rule == 'mpls' and c in und and a['round'] == 2)]
            if any(c not in hop for c in run):
                res.fail('defeat-non-hopeful', 'defeat-non-hopeful|' + base, 'excluded %s, hopeful were %s' % (run, hop))
            elif len(set(run)) > 1 or (len(run) == 1 and 'batch' in a['msg'].lower() + ' ') or \
                    (len(run) == 1 and ('sure loser' in a['msg'] or 'certain loser' in a['msg'])):
                # a batch (possibly of one sure loser)
                maxbatch = max(maxbatch, len(set(run)))
                batch = set(declared_run)
                outside = [c for c in hop if c not in set(run)]
                tot = sum((bcs[c][key] for c in batch), Fraction(0))
                if rule == 'mpls' and a['round'] == 2:
                    # votes for undeclared write-ins defeated in the same step could still flow anywhere
                    tot += sum((bcs[c][key] for c in run if c in und and c not in batch), Fraction(0))
                if batch and outside:
                    lowest_out = min(bcs[c][key] for c in outside)
                    if not lt(tot + surplus, lowest_out) and not near[0]:
                        res.fail('batch-not-sure-losers', 'batch-not-sure-losers|' + base,
                                 'batch %s: tallies %s + surplus %s is not below the next candidate\'s %s (%s)' %
                                 (sorted(batch), float(tot), float(surplus), float(lowest_out), a['msg']))
                nel = sum(1 for c in bcs if bcs[c]['state'] == 'elected')
                electable_hop = [c for c in hop if c not in und]
                electable_out = [c for c in outside if c not in und]
                need = min(s_seats, nel + len(electable_hop))
                if nel + len(electable_out) < need:
                    res.fail('batch-too-large', 'batch-too-large|' + base,
                             'after excluding %s only %d continuing + %d elected remain, %d seats can still be filled' %
                             (sorted(run), len(electable_out), nel, need))
                if rule == 'wigm' and 'zero' in a['msg'] and any(not ar.eq(bcs[c][key], Fraction(0)) for c in batch):     # "zero" by the arithmetic's own law
                    res.fail('zero-batch-nonzero', 'zero-batch-nonzero|' + base, 'batch(zero) excludes a candidate with votes')
            else:
                c = run[0]
                # a single exclusion is judged on its own snapshot: it is logged before the tally is zeroed or transferred
                bcs = a['cstate']
                hop = [x for x, st_ in bcs.items() if st_['state'] == 'hopeful'] + [c]
                if meek:
                    surplus = max(Fraction(0), a.get('surplus', Fraction(0)))
                v = bcs[c][key]
                low = min(bcs[x][key] for x in hop)
                if rule == 'mpls' and c in und and a['round'] == 2:
                    pass
                else:
                    if meek:
                        ok = not lt(low + surplus, v)
                        tied = [x for x in hop if not lt(low + surplus, bcs[x][key])]
                    else:
                        ok = eq(v, low)
                        tied = [x for x in hop if eq(bcs[x][key], low)]
                    if not ok and not near[0]:
                        res.fail('not-lowest', 'not-lowest|' + base, 'excluded candidate %d has %s, lowest is %s (surplus %s) (%s)' %
                                 (c, float(v), float(low), float(surplus), a['msg']))
                    elif not near[0]:
                        check_tie(res, case, o, base, rule, acts, pos, tied, c, trank, round_snaps, 'low', key, preceding_tie(pos))
            pos = j
            continue
        # ---------------- which surplus goes first
        if rule in ('wigm', 'wigm-prf', 'wigm-prf-batch', 'scotland') and a['tag'] == 'unpend' and pos >= 1:
            c = common.named_candidate(o, a['msg'])
            before = acts[pos - 1]
            bcs = before['cstate']
            pend = [x for x, s in bcs.items() if s['state'] == 'elected' and s.get('pending')]
            if c is not None and c in pend:
                high = max(bcs[x]['vote'] for x in pend)
                if not eq(bcs[c]['vote'], high) and not near[0]:
                    res.fail('not-largest-surplus', 'not-largest-surplus|' + base, 'surplus of %d (%s) transferred before a larger one (%s)' %
                             (c, float(bcs[c]['vote']), float(high)))
                elif not near[0]:
                    tied = [x for x in pend if eq(bcs[x]['vote'], high)]
                    check_tie(res, case, o, base, rule, acts, pos, tied, c, trank, round_snaps, 'high', 'vote', preceding_tie(pos))
        if rule == 'mpls' and a['tag'] == 'elect' and a['msg'].startswith('Elect:') and pos >= 1:
            c = common.named_candidate(o, a['msg'])
            before = acts[pos - 1]
            bcs = before['cstate']
            pool = [x for x, s in bcs.items() if s['state'] == 'hopeful' and s['vote'] >= before['quota']]
            if c is not None and c in pool:
                high = max(bcs[x]['vote'] for x in pool)
                if bcs[c]['vote'] != high:
                    res.fail('not-largest-surplus', 'not-largest-surplus|' + base, 'mpls elects %d (%s) before a larger surplus (%s)' %
                             (c, float(bcs[c]['vote']), float(high)))
                else:
                    tied = [x for x in pool if bcs[x]['vote'] == high]
                    check_tie(res, case, o, base, rule, acts, pos, tied, c, trank, round_snaps, 'high', 'vote', preceding_tie(pos))
        if rule == 'qpq' and a['tag'] == 'elect' and 'high quotient' in a['msg']:
            c = common.named_candidate(o, a['msg'])
            # quotients of the stage are shown by the elect action itself (computed after the round action)
            cs = a['cstate']
            pool = [x for x, s in cs.items() if s['state'] == 'hopeful'] + [c]
            high = max(cs[x]['quotient'] for x in pool)
            if not eq(cs[c]['quotient'], high) and not near[0]:
                res.fail('not-highest-quotient', 'not-highest-quotient|' + base, 'elected %d with quotient %s, highest is %s' %
                         (c, float(cs[c]['quotient']), float(high)))
            elif not near[0]:
                tied = [x for x in pool if eq(cs[x]['quotient'], high)]
                check_tie(res, case, o, base, rule, acts, pos, tied, c, trank, round_snaps, 'high', 'quotient', preceding_tie(pos))
        pos += 1
    # ---------------- oracle B: without a logged tie the tie order is irrelevant
    if nties == 0 and o.stage == 'done' and case.get('tie2'):
        c2 = dict(case, tie=case['tie2'])
        c2.pop('tie2')
        o2 = drive.run(c2)
        if o2.stage != 'done' or o2.actions != o.actions:
            res.fail('tie-order-matters', 'tie-order-matters|' + base, 'no tie is logged, yet tie order %s gives a different record than %s' %
                     (case['tie2'], case.get('tie')))
        if ndefeats >= 2:
            res.nontrivial = True
            res.tag('tiefree>=2-exclusions')
    res.tag('rule:' + rule)
    if nties:
        res.nontrivial = True
        res.tag('tie-logged')
    if maxbatch >= 2:
        res.nontrivial = True
        res.tag('batch>=2')
    if near[0]:
        res.tag('guarded-near-tolerance(not asserted)')
    return res


def check_tie(res, case, o, base, rule, acts, pos, tied, chosen, trank, round_snaps, direction, key, tie):
    "the choice among `tied` must be logged and follow the tie order (Scottish: prior stage first)"
    tied = sorted(set(tied))
    if chosen not in tied:
        return
    if len(tied) == 1:
        if tie is not None and set(tie['tied']) != set(tied):
            res.fail('tie-spurious', 'tie-spurious|' + base, 'tie logged %s although %d is the unique extreme' % (tie['tied'], chosen))
        return
    if tie is None:
        res.fail('tie-not-logged', 'tie-not-logged|' + base, 'candidates %s are tied, %d chosen, and no tie action precedes "%s"' %
                 (tied, chosen, acts[pos]['msg']))
        return
    if sorted(tie['tied']) != tied:
        res.fail('tie-set', 'tie-set|' + base, 'tie action lists %s, tied by the recorded tallies are %s' % (sorted(tie['tied']), tied))
        return
    if tie['chosen'] != chosen:
        res.fail('tie-chosen', 'tie-chosen|' + base, 'tie action names %d, decision is about %d' % (tie['chosen'], chosen))
        return
    want = None
    how = None
    if rule == 'scotland':
        # most recent stage (round snapshot) with a unique extreme among the tied group
        for snap in reversed(round_snaps):
            vals = {c: snap['cstate'][c][key] for c in tied}
            ext = min(vals.values()) if direction == 'low' else max(vals.values())
            ex = [c for c in tied if vals[c] == ext]
            if len(ex) == 1:
                want, how = ex[0], 'prior stage'
                break
    if want is None:
        want, how = min(tied, key=lambda c: trank[c]), ('lot' if rule == 'scotland' else None)
    if chosen != want:
        res.fail('tie-order', 'tie-order|%s|%s' % (how, base), 'tied %s: %d chosen, the %s decides for %d' %
                 (tied, chosen, how or 'tie-break order', want))
    elif rule == 'scotland' and tie['how'] != how:
        res.fail('tie-how', 'tie-how|' + base, 'tie resolved "%s", expected "%s"' % (tie['how'], how))
    if how == 'prior stage':
        res.tag('scotland-prior-stage')


# ---- thorough tier: exhaustive small scope (enumeration inside the same harness and oracle)
EXTRA_EXHAUSTIVE = {'quick': False, 'thorough': False}     # the small scope is complete; the generated part is a sample


def extra_chunks(tier, seed):
    from .. import smallscope
    return smallscope.chunks(model.ALL_RULES) if tier == 'thorough' else []


def extra_cases(tier, seed, chunk):
    from .. import smallscope
    return smallscope.cases(chunk, decorate=lambda c: dict(c, tie2=list(range(c['ncand'], 0, -1))))
