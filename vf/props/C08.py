"""C08 - Meek/Warren iterations keep their invariants and stop only when converged"""
from fractions import Fraction

from hypothesis import strategies as st

from .. import gen, model, drive
from ..exact import frac
from ..gen import D
from ..run import Result
from ..drive import exc_sig
from . import common

ID = 'C08'
LEVEL = 'exploration'
N = {'quick': 32000, 'thorough': 800000}
RULE = ('generated elections under meek, warren (strict and equal-rank ballots; fixed/guarded/rational x precision x guard x omega x defeat_batch, '
        'in two option strata S1 "supported" and S2 "free", plus 6 % with omega finer than the arithmetic resolves) and meek-prf; omega is the configured one (options), not the value in the record; invariants at the post-distribution snapshots the property names; '
        'non-trivial = some elected candidate has a keep factor below 1 at a checked snapshot; distinct = distinct case JSON')
TECHNIQUE = 'property-based testing: invariants at post-distribution snapshots of generated Meek-family counts (exact Fractions), stratified options'
LEVEL_TEXT = 'invariants over every named snapshot of generated Meek/Warren/PRF-Meek counts; option space stratified so that violations in the supported stratum are always new'
LEVEL_NOTE = ('the just-excluded candidate keeps its keep factor in its own defeat snapshot (zeroed right after the log); iteration counts are '
              'observable only through Election.prog, i.e. for exact/quasi-exact arithmetic')
GUARDS = {'all': {'kf<1': 0.15}}


def in_S1(case):
    "options within what the rule's own defaults support (DESIGN section 5, C08)"
    if case['rule'] == 'meek-prf':
        return True
    o = case.get('options') or {}
    a = o.get('arithmetic', 'guarded')
    if a == 'rational':
        return True
    if a == 'fixed':
        p = o.get('precision', 9)
        return p >= 3 and o.get('omega', p * 2 // 3) <= p * 2 // 3
    p = o.get('precision', 18)
    g = o.get('guard', p // 2)
    # p >= 3 as for fixed: guarded ignores round='up', and in the geometric-decay family (more seats than supported
    # candidates) kf ~ quota ~ surplus/seats > omega/seats, so kf*quota ~ 10^-p/seats^2 must exceed one unit 10^-(p+g)
    return p >= 3 and g >= p // 2 and o.get('omega', p // 2) <= p // 2


@st.composite
def cases(draw, tier):
    d = D(draw)
    if d.int(0, 149) == 0:
        return gen.meek_prf_boundary_case(d)        # a non-electing iteration ending with surplus == omega exactly
    stratum = 'S2' if d.p(25) else 'S1'
    case = draw(gen.election_cases(tier=tier, rules=model.MEEK, equal_for_meek=True, stratum=stratum))
    if case['rule'] != 'meek-prf' and d.p(6):
        # omega finer than the arithmetic resolves (it truncates to 0): an iteration may then end only at surplus 0 or on a
        # logged stable state - the regime in which the convergence exits are decided by single units in the last place
        p = d.int(1, 8)
        o = {'arithmetic': 'fixed', 'precision': p} if d.p(70) else {'arithmetic': 'guarded', 'precision': p, 'guard': 0}
        o['omega'] = p + d.int(1, 3)
        if 'defeat_batch' in case['options']:
            o['defeat_batch'] = case['options']['defeat_batch']
        case['options'] = o
    return case


def strategy(tier):
    return cases(tier)


def configured_omega(case):
    "10^-omega as configured: the caller's option, else the documented default (guarded p//2, fixed 2p//3, rational 10; meek-prf 6)"
    if case['rule'] == 'meek-prf':
        return Fraction(1, 10 ** 6)
    o = case.get('options') or {}
    a = o.get('arithmetic', 'guarded')
    if 'omega' in o:
        k = int(o['omega'])
    elif a == 'rational':
        k = 10
    elif a == 'fixed':
        k = int(o.get('precision', 9)) * 2 // 3
    else:
        k = int(o.get('precision', 18)) // 2
    return Fraction(1, 10 ** k)


def check(case):
    res = Result()
    rule = case['rule']
    stratum = 'S1' if in_S1(case) else 'S2'
    o = drive.run(case)
    if o.budget_hit:
        res.skipped = 'rational-meek-iteration-budget'
        return res
    if o.exc is not None and o.stage in ('profile', 'construct'):
        res.skipped = 'rejected:%s' % type(o.exc).__name__
        return res
    base = '%s|%s' % (common.base_sig(case, o), stratum)
    if o.exc is not None:
        res.fail('count-raises', 'count-raises|%s|%s' % (base, exc_sig(o.exc)), repr(o.exc))
    ar = o.arith
    n = Fraction(o.nballots)
    omega = configured_omega(case)      # from the options as given, never from the record (the rule reports its own internal value there)
    acts = o.actions
    kf_lt_1 = False
    last_iter = None        # kind of the last iteration end in this round
    cur_round = None
    for i, a in enumerate(acts):
        if a['tag'] == 'log':
            continue
        if a['round'] != cur_round:
            cur_round = a['round']
            last_iter = None
        epi = a['tag'] in ('elect', 'defeat') and common.epilogue_msg(a['msg'])
        named = common.named_candidate(o, a['msg']) if a['tag'] == 'defeat' else None
        if rule == 'meek-prf':
            checked = a['tag'] in ('begin', 'tie', 'end') or (a['tag'] in ('elect', 'defeat') and not epi)
        else:
            checked = a['tag'] in ('iterate', 'end')
        if checked:
            T = a['votes'] + a['residual']
            if T != n:
                res.fail('total', 'total|' + base, 'votes %s + residual %s != %s ballots at action %d (%s)' % (a['votes'], a['residual'], n, i, a['msg']))
                break
            if a['residual'] < 0:
                res.fail('negative', 'negative-residual|' + base, 'residual %s at action %d (%s)' % (a['residual'], i, a['msg']))
                break
            bad = False
            for c, s in a['cstate'].items():
                if s['state'] == 'withdrawn':
                    continue
                if s['vote'] < 0:
                    res.fail('negative', 'negative-tally|' + base, 'candidate %d tally %s at action %d (%s)' % (c, s['vote'], i, a['msg']))
                    bad = True
                    break
                kf = s.get('kf')
                if s['state'] == 'hopeful' and kf != 1:
                    res.fail('kf', 'kf-hopeful|' + base, 'hopeful %d has keep factor %s at action %d' % (c, kf, i))
                    bad = True
                elif s['state'] == 'defeated' and kf != 0 and c != named:
                    res.fail('kf', 'kf-defeated|' + base, 'defeated %d has keep factor %s at action %d (%s)' % (c, kf, i, a['msg']))
                    bad = True
                elif s['state'] == 'elected':
                    if kf is None or not (0 < kf and ar.le(kf, Fraction(1))):     # guarded: "<= 1" by the arithmetic's own law
                        res.fail('kf', 'kf-elected|' + base, 'elected %d has keep factor %s at action %d (%s)' % (c, kf, i, a['msg']))
                        bad = True
                    elif kf < 1:
                        kf_lt_1 = True
                if bad:
                    break
            if bad:
                break
        if a['tag'] == 'iterate':
            kind = a['msg'][len('Iterate ('):-1]
            last_iter = kind
            if kind == 'omega' and omega is not None and ar.gt(a['surplus'], omega):
                res.fail('omega', 'omega|' + base, 'iteration ended for convergence with surplus %s > omega %s' % (a['surplus'], omega))
            if kind == 'batch':
                # an iteration may stop short of convergence only for sure losers: their votes plus the whole surplus stay
                # below every other hopeful candidate (otherwise the exclusion comes "before such an end of iteration")
                batch = []
                for x in acts[i + 1:]:
                    if x['tag'] == 'log' or x['tag'] == 'tie':
                        continue
                    if x['tag'] == 'defeat' and 'certain loser' in x['msg']:
                        batch.append(common.named_candidate(o, x['msg']))
                    else:
                        break
                cs = a['cstate']
                hop = [c for c, s in cs.items() if s['state'] == 'hopeful']
                out = [c for c in hop if c not in batch]
                if not batch or None in batch:
                    res.fail('batch-end', 'batch-end|unparsed|' + base, 'Iterate (batch) at action %d is not followed by certain-loser exclusions' % i)
                elif out:
                    tot = sum((cs[c]['vote'] for c in batch), Fraction(0)) + max(Fraction(0), a['surplus'])
                    low = min(cs[c]['vote'] for c in out)
                    if not ar.lt(tot, low):
                        res.fail('batch-end', 'batch-end|not-sure-losers|' + base,
                                 'iteration stopped at action %d with surplus %s for the batch %s, whose votes plus the surplus (%s) reach a remaining candidate (%s)' %
                                 (i, a['surplus'], sorted(batch), float(tot), float(low)))
            if kind == 'stable':
                prev = acts[i - 1] if i else None
                if not (prev and prev['tag'] == 'log' and prev['msg'].startswith('Stable state detected')):
                    res.fail('stable-unlogged', 'stable-unlogged|' + base, 'Iterate (stable) without the "Stable state detected" log')
        if a['tag'] == 'defeat' and not epi:
            if rule == 'meek-prf':
                if 'stable surplus' in a['msg']:
                    logs = [x for x in acts[max(0, i - 3):i] if x['tag'] == 'log' and x['msg'].startswith('Stable state detected')]
                    if not logs:
                        res.fail('stable-unlogged', 'stable-unlogged|' + base, 'stable-surplus exclusion without the log')
                elif '< omega' in a['msg']:
                    if omega is not None and not a['surplus'] < omega:
                        res.fail('omega', 'omega|' + base, 'excluded with surplus %s, not below omega %s' % (a['surplus'], omega))
                else:
                    res.fail('defeat-reason', 'defeat-reason|' + base, a['msg'])
            else:
                if 'certain loser' in a['msg']:
                    want = 'batch'
                elif 'stable surplus' in a['msg']:
                    want = 'stable'
                elif '< omega' in a['msg']:
                    want = 'omega'
                else:
                    want = '?'
                if last_iter != want:
                    res.fail('defeat-before-convergence', 'defeat-before-convergence|' + base,
                             '"%s" in a round whose iteration ended "%s"' % (a['msg'], last_iter))
    res.tag('rule:' + rule, 'stratum:' + stratum)
    if kf_lt_1:
        res.tag('kf<1')
        res.nontrivial = True
    if model.has_equal_ranks(case):
        res.tag('equal-ranks')
    return res


def valid_case(case):
    o = case.get('options') or {}
    if case['rule'] in ('meek', 'warren'):
        if o.get('precision', 1) < 1 or (o.get('arithmetic') == 'fixed' and o.get('precision', 9) < 1):
            return False
        if o.get('omega', 0) > o.get('precision', 18 if o.get('arithmetic', 'guarded') == 'guarded' else 9) + 12 and o.get('arithmetic') != 'rational':
            return False
    return model.valid(case)
