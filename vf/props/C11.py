"""C11 - neutrality: candidate numbering is irrelevant and withdrawn means absent"""
import copy
from fractions import Fraction

from hypothesis import strategies as st

from .. import gen, model, drive
from ..gen import D
from ..run import Result
from . import common

ID = 'C11'
LEVEL = 'exploration'
N = {'quick': 20000, 'thorough': 500000}
RULE = ('generated strict-ranking elections (all rules x accepted options, explicit tie orders and candidate names); (1) a drawn permutation of the '
        'candidate ids carried through names, tie order, withdrawn/undeclared sets and rankings: same winners and final tallies by name; (2) the '
        'withdrawn set versus the election with those candidates deleted and ids compacted: identical records by name; non-trivial = (1) the '
        'permutation moves a winner and a loser, (2) a withdrawn candidate appears inside a ranking and some ballot is dropped or shortened')
TECHNIQUE = 'property-based testing: two metamorphic relations (candidate renumbering; withdrawn == deleted) compared by candidate name'
LEVEL_TEXT = 'generated election pairs; winners/tallies (1) and whole action lists (2) compared after projection onto candidate names'
LEVEL_NOTE = 'for (2) the "Add withdrawn/eligible" log lines and the withdrawn entries of cdict/cstate are dropped before comparison, nothing else'
GUARDS = {'all': {'perm-moves-winner-and-loser': 0.1, 'withdrawn-mid-ranking': 0.05}}


@st.composite
def cases(draw, tier):
    d = D(draw)
    if d.p(4):
        case = gen.scotland_prior_stage_case(d) if d.p(40) else gen.scotland_threeway_case(d)
    else:
        case = draw(gen.election_cases(tier=tier, equal_for_meek=False))
    case.pop('nicks', None)
    nc = case['ncand']
    if case['tie'] is None:
        case['tie'] = d.perm(range(1, nc + 1))
    case['names'] = ['C%d' % i for i in d.perm(range(1, nc + 1))]
    if nc >= 2 and not case['withdrawn'] and d.p(50):
        w = d.int(1, nc)
        c2 = dict(case, withdrawn=[w])
        if model.valid(c2):
            case = c2
    return dict(case=case, perm=d.perm(range(1, nc + 1)))


def strategy(tier):
    return cases(tier)


def permute(case, perm):
    "apply cid -> perm[cid-1] everywhere"
    nc = case['ncand']
    f = {c: perm[c - 1] for c in range(1, nc + 1)}
    out = dict(case)
    names = model.names_of(case)
    nn = [None] * nc
    for c in range(1, nc + 1):
        nn[f[c] - 1] = names[c - 1]
    out['names'] = nn
    out['withdrawn'] = sorted(f[c] for c in case.get('withdrawn') or [])
    out['undeclared'] = sorted(f[c] for c in case.get('undeclared') or [])
    out['tie'] = [f[c] for c in (case.get('tie') or range(1, nc + 1))]
    out['ballots'] = [[m, [[f[c] for c in rank] for rank in r]] for m, r in case['ballots']]
    return out


def delete_withdrawn(case):
    wd = sorted(case.get('withdrawn') or [])
    nc = case['ncand']
    keep = [c for c in range(1, nc + 1) if c not in wd]
    f = {c: i + 1 for i, c in enumerate(keep)}
    out = dict(case)
    names = model.names_of(case)
    out['ncand'] = len(keep)
    out['names'] = [names[c - 1] for c in keep]
    out['withdrawn'] = []
    out['undeclared'] = sorted(f[c] for c in (case.get('undeclared') or []) if c in f)
    out['tie'] = [f[c] for c in (case.get('tie') or range(1, nc + 1)) if c in f]
    out['ballots'] = [[m, [[f[c] for c in rank] for rank in r]] for m, r in model.kept_ballots(case)]
    return out


def by_name(o, drop_withdrawn=False):
    "the record projected onto candidate names"
    nm = dict(o.names)
    out = []
    for a in o.actions:
        if a['tag'] == 'log':
            if a['msg'].startswith(('Add withdrawn: ', 'Add eligible: ', 'Add undeclared: ')):
                continue
            out.append(('log', a['msg']))
            continue
        cs = {}
        for c, s in a['cstate'].items():
            if drop_withdrawn and s['state'] == 'withdrawn':
                continue
            cs[nm[c]] = tuple(sorted((k, v) for k, v in s.items()))
        out.append((a['tag'], a['msg'], a['round'], a['quota'], a['votes'], a.get('nt_votes'), a.get('residual'), a.get('surplus'),
                    tuple(sorted(cs.items()))))
    return out


def final_by_name(o):
    nm = dict(o.names)
    end = o.actions[-1]['cstate']
    return {nm[c]: (s['state'], s.get('vote'), s.get('quotient')) for c, s in end.items()}


def check(wrapper):
    res = Result()
    case, perm = wrapper['case'], wrapper['perm']
    rule = case['rule']
    o = drive.run(case)
    if common.failed_run(res, case, o, construct_is_violation=False):
        if o.exc is not None and o.stage == 'count':
            res.skipped = 'count-raises:%s' % type(o.exc).__name__
        return res
    base = common.base_sig(case, o)
    # (1) renumbering
    cp = permute(case, perm)
    op = drive.run(cp)
    if not op.ok or op.stage != 'done':
        if op.budget_hit:
            res.skipped = 'budget'
        else:
            res.fail('perm-fails', 'perm-fails|%s|%s' % (base, drive.exc_sig(op.exc)), 'renumbered election fails: %r' % (op.exc,))
    else:
        fa, fb = final_by_name(o), final_by_name(op)
        wa = sorted(n for n, s in fa.items() if s[0] == 'elected')
        wb = sorted(n for n, s in fb.items() if s[0] == 'elected')
        if wa != wb:
            res.fail('perm-winners', 'perm-winners|' + base, 'winners %s become %s under renumbering %s' % (wa, wb, perm))
        elif fa != fb:
            n = next(k for k in fa if fa[k] != fb.get(k))
            res.fail('perm-tallies', 'perm-tallies|' + base, 'final state of %s: %s vs %s under renumbering %s' % (n, fa[n], fb.get(n), perm))
        names = model.names_of(case)
        moved = [c for c in range(1, case['ncand'] + 1) if perm[c - 1] != c]
        if any(c in o.elected for c in moved) and any(c in o.defeated for c in moved):
            res.tag('perm-moves-winner-and-loser')
            res.nontrivial = True
    # (2) withdrawn == deleted
    if case.get('withdrawn'):
        cd = delete_withdrawn(case)
        if model.valid(cd):
            od = drive.run(cd)
            if not od.ok or od.stage != 'done':
                if od.budget_hit:
                    res.skipped = 'budget'
                else:
                    res.fail('deleted-fails', 'deleted-fails|%s|%s' % (base, drive.exc_sig(od.exc)), 'election with withdrawn candidates deleted fails: %r' % (od.exc,))
            else:
                ra, rb = by_name(o, True), by_name(od, True)
                if ra != rb:
                    k = next((i for i, (x, y) in enumerate(zip(ra, rb)) if x != y), min(len(ra), len(rb)))
                    res.fail('withdrawn-vs-deleted', 'withdrawn-vs-deleted|' + base, 'records differ at entry %d: %r vs %r' %
                             (k, ra[k][:3] if k < len(ra) else None, rb[k][:3] if k < len(rb) else None))
                elif (o.record.get('nballots'), o.record.get('seats')) != (od.record.get('nballots'), od.record.get('seats')):
                    res.fail('withdrawn-vs-deleted', 'withdrawn-vs-deleted|header|' + base, 'nballots/seats differ')
                wd = set(case['withdrawn'])
                mid = any(any(c in wd for rank in r[:-1] for c in rank) or any(c in wd for rank in r for c in rank) and len(r) > 1
                          for _, r in case['ballots'])
                if mid:
                    res.tag('withdrawn-mid-ranking')
                    res.nontrivial = True
    res.tag('rule:' + rule)
    return res


def shrink_candidates(wrapper):
    from ..shrink import election_candidates
    case = wrapper['case']
    for c in election_candidates(case):
        if c['ncand'] != case['ncand']:
            yield dict(case=c, perm=list(range(c['ncand'], 0, -1)))
            yield dict(case=c, perm=list(range(2, c['ncand'] + 1)) + [1])
        else:
            yield dict(case=c, perm=wrapper['perm'])


def valid_case(wrapper):
    c = wrapper['case']
    return model.valid(c) and sorted(wrapper['perm']) == list(range(1, c['ncand'] + 1))
