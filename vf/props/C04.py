"""C04 - the quota is the prescribed one, and whoever reaches it is elected"""
from fractions import Fraction

from .. import gen, model, drive
from ..gen import D
from ..run import Result
from . import common
from hypothesis import strategies as st

ID = 'C04'
LEVEL = 'exploration'
N = {'quick': 32000, 'thorough': 1200000}
RULE = ('generated elections biased towards tallies landing on the quota (total ballots a multiple of seats+1, a candidate given exactly '
        'the Droop quotient or one more; 3 % of the Gregory counts with more than 2^53 ballots), all rules x accepted options; the formula is the one of the arithmetic asked for; non-trivial = some tally equals the quota exactly or exceeds it by '
        'exactly one unit in the last place at some recorded action; distinct = distinct case JSON')
TECHNIQUE = 'property-based testing: closed-form quota recomputed from the profile; invariant "quota => elected before any exclusion" over the history'
LEVEL_TEXT = 'the quota formula and the election-at-quota invariant are checked on every action of generated, boundary-biased counts'
LEVEL_NOTE = ('Meek epilogue ("remaining") snapshots are outside the claim (tallies redistributed against a stale quota); for mpls and qpq '
              'only "elected before the end and never excluded" is asserted, as their procedures prescribe one election per round/stage')
GUARDS = {'all': {'boundary': 0.01}}


@st.composite
def cases(draw, tier):
    d = D(draw)
    if d.p(3):
        return gen.fractional_landing_case(d)
    case = draw(gen.election_cases(tier=tier, equal_for_meek=False))
    if d.p(35):
        # force a quota landing at the first stage
        s1 = case['nseats'] + 1
        tot = model.nballots(case)
        el = model.eligible(case)
        pad = (-tot) % s1
        if pad:
            case['ballots'].append([pad, [[d.choice(el)]]])
            tot += pad
        c = d.choice(el)
        kb = model.kept_ballots(case)
        have = sum(m for m, r in kb if r[0] == [c])
        want = tot // s1 + d.int(0, 1)
        if want > have:
            add = want - have
            # keep the total a multiple of seats+1 by taking the padding from a multiple
            case['ballots'].append([add, [[c]] + [[x] for x in d.sample([y for y in el if y != c], d.int(0, len(el) - 1))]])
            pad2 = (-(tot + add)) % s1
            if pad2:
                others = [y for y in el if y != c] or [c]
                case['ballots'].append([pad2, [[d.choice(others)]]])
    if case['rule'] in model.GREGORY and d.p(3):
        case = gen.astronomic(d, case)      # beyond 2^53 ballots the quota formula must still be exact
    return case


def strategy(tier):
    return cases(tier)


def floor_to(x, scale):
    return Fraction((x.numerator * scale) // x.denominator, scale)


def expected_quota(case, o, votes):
    "the prescribed quota for this rule/arithmetic from a vote total"
    rule = case['rule']
    ar = o.arith
    s = case['nseats']
    if rule in ('scotland', 'mpls') or (rule == 'wigm' and bool((case.get('options') or {}).get('integer_quota'))):
        return Fraction(int(votes) // (s + 1) + 1)
    q = Fraction(votes) / (s + 1)
    if ar.is_exact:
        return q
    if ar.exact_flag:                 # guarded with guard digits: quasi-exact, truncated at p+g places
        return floor_to(q, ar.scale)
    return floor_to(q, ar.scale) + ar.ulp


def check(case):
    res = Result()
    rule = case['rule']
    o = drive.run(case)
    if common.failed_run(res, case, o, construct_is_violation=False):
        if not (o.exc is not None and o.stage == 'count'):
            return res
        res.skipped = 'count-raises:%s' % type(o.exc).__name__
    base = common.base_sig(case, o)
    ar = o.arith
    acts = common.nonlog(o)
    if not acts:
        return res
    n = o.nballots
    und = set(case.get('undeclared') or []) if rule == 'mpls' else set()
    # ---- 0. the arithmetic whose quota formula applies is the one that was asked for
    bad = common.arithmetic_not_as_requested(case, ar)
    if bad:
        res.fail('formula', 'formula|arithmetic-not-as-requested|' + base, bad)
        return res
    # ---- 1. formula
    from ..exact import frac
    q0 = frac(o.record.get('quota')) if 'quota' in o.record else None
    want0 = expected_quota(case, o, n)
    if rule == 'qpq':
        want0 = floor_to(Fraction(n, 1 + case['nseats']), ar.scale)
    if q0 is None and o.stage == 'done':
        res.fail('formula', 'formula|missing|' + base, 'the record of a completed count reports no quota')
    if q0 is not None and q0 != want0:
        res.fail('formula', 'formula|initial|' + base, 'record quota %s, prescribed %s (n=%d, seats=%d)' % (q0, want0, n, case['nseats']))
    if rule in model.GREGORY:
        for i, a in acts:
            if a['quota'] != want0:
                res.fail('formula', 'formula|action|' + base, 'quota %s at action %d (%s), prescribed %s' % (a['quota'], i, a['msg'], want0))
                break
    elif rule in ('meek', 'warren'):
        for i, a in acts:
            if a['tag'] == 'iterate':
                want = expected_quota(case, o, a['votes'])
                if a['quota'] != want:
                    res.fail('formula', 'formula|iterate|' + base, 'quota %s at %s, prescribed %s from votes %s' % (a['quota'], a['msg'], want, a['votes']))
                    break
    elif rule == 'meek-prf':
        for i, a in acts:
            if (a['tag'] in ('elect', 'defeat') and not common.epilogue_msg(a['msg'])) or a['tag'] == 'tie':
                want = expected_quota(case, o, a['votes'])
                if a['quota'] != want:
                    res.fail('formula', 'formula|meek-prf|' + base, 'quota %s at %s, prescribed %s from votes %s' % (a['quota'], a['msg'], want, a['votes']))
                    break
    # ---- 2-4. whoever reaches the quota is elected
    key = 'quotient' if rule == 'qpq' else 'vote'
    boundary = False
    reached = {}     # cid -> index of the action at which it first reached the quota while hopeful
    one_at_a_time = rule in ('wigm', 'wigm-prf', 'wigm-prf-batch', 'scotland')
    strong = rule != 'mpls'
    meek = rule in model.MEEK
    run_id = 0          # consecutive defeat actions form one decision (a batch); Meek redistributes between them
    reached_run = {}
    for pos, (i, a) in enumerate(acts):
        q = a['quota']
        if a['tag'] != 'defeat':
            run_id += 1
        epi = a['tag'] in ('elect', 'defeat') and common.epilogue_msg(a['msg'])
        outside = meek and (epi or a['tag'] == 'end')      # Meek epilogue: tallies redistributed against a stale quota
        for c, s in a['cstate'].items():
            if s['state'] == 'hopeful' and key in s and (s[key] == q or (ar.ulp and s[key] == q + ar.ulp)):
                boundary = True
        if rule == 'qpq':
            # 2.5b: an exclusion happens only when no quotient exceeds the quota
            if a['tag'] == 'defeat' and not epi:
                for c, s in a['cstate'].items():
                    if s['state'] in ('hopeful', 'defeated') and c == common.named_candidate(o, a['msg']) or s['state'] == 'hopeful':
                        if ar.gt(s['quotient'], q):
                            res.fail('quota-excluded', 'quota-excluded|' + base,
                                     'exclusion (%s) while candidate %d has quotient %s > quota %s' % (a['msg'], c, s['quotient'], q))
                            break
            continue
        if a['tag'] == 'defeat' and not outside:
            c = common.named_candidate(o, a['msg'])
            if c is not None and c not in und:
                v = a['cstate'][c].get(key)
                if not epi and v is not None and common.reaches(ar, v, q):
                    res.fail('quota-excluded', 'quota-excluded|' + base, 'candidate %d excluded with %s >= quota %s (%s)' % (c, v, q, a['msg']))
                elif c in reached:
                    res.fail('quota-then-excluded', 'quota-then-excluded|' + base,
                             'candidate %d reached the quota at action %d and is excluded at action %d (%s)' % (c, reached[c], i, a['msg']))
                reached.pop(c, None)
        if a['tag'] == 'elect':
            reached.pop(common.named_candidate(o, a['msg']), None)
        # strong form: between reaching the quota and the election step there is no exclusion of anybody
        # (and, where surpluses go one at a time, no further surplus transfer)
        if strong and reached and not outside:
            c = sorted(reached)[0]
            if a['tag'] == 'defeat' and any(reached_run[x] != run_id for x in reached):
                c = sorted(x for x in reached if reached_run[x] != run_id)[0]
                res.fail('not-next-step', 'not-next-step|defeat|' + base,
                         'candidate %d holds a quota since action %d but "%s" happens first' % (c, reached[c], a['msg']))
                reached.clear()
            elif one_at_a_time and a['tag'] == 'transfer' and 'urplus' in a['msg']:
                res.fail('not-next-step', 'not-next-step|transfer|' + base,
                         'candidate %d holds a quota since action %d but "%s" happens first' % (c, reached[c], a['msg']))
                reached.clear()
        if not outside:
            for c, s in a['cstate'].items():
                if s['state'] == 'hopeful' and c not in und and key in s and c not in reached and common.reaches(ar, s[key], q):
                    reached[c] = i
                    reached_run[c] = run_id
    if reached and o.stage == 'done':
        c = sorted(reached)[0]
        res.fail('never-elected', 'never-elected|' + base, 'candidate %d reached the quota at action %d and is not elected' % (c, reached[c]))
    if boundary:
        res.nontrivial = True
        res.tag('boundary')
    res.tag('rule:' + rule)
    return res


# ---- thorough tier: exhaustive small scope (enumeration inside the same harness and oracle)
EXTRA_EXHAUSTIVE = {'quick': False, 'thorough': False}     # the small scope is complete; the generated part is a sample


def extra_chunks(tier, seed):
    from .. import smallscope
    return smallscope.chunks(model.ALL_RULES) if tier == 'thorough' else []


def extra_cases(tier, seed, chunk):
    from .. import smallscope
    return smallscope.cases(chunk, decorate=None)
