"""C15 - a well-formed ballot file is read as exactly the election it denotes"""
import os
import tempfile

from hypothesis import strategies as st

from .. import gen, model, drive, bltgen
from ..gen import D
from ..run import Result
from ..drive import exc_sig

from droop.profile import ElectionProfile, ElectionProfileError

ID = 'C15'
LEVEL = 'exploration'
N = {'quick': 24000, 'thorough': 300000}
RULE = ('election structures with every BLT feature drawn at random (nicknames, tie, withdrawn by both syntaxes, undeclared, ballot ids, equal '
        'ranks, source/comment strings, names containing comment markers / brackets / digits / non-ASCII, BOM through path=), valid by '
        'construction, rendered with random token layout and comments; candidate counts include 255/256/257 (and 65535/65536 in the thorough '
        'tier); non-trivial = >= 3 of {comments, nicknames, withdrawn, ballot ids, equal ranks, multi-word strings} present; distinct = distinct case JSON')
TECHNIQUE = 'property-based testing: round trip parse(render(model)) == normalise(model) over a randomised renderer'
LEVEL_TEXT = 'round trip of generated election models through a randomised renderer and the profile reader; every public attribute compared'
LEVEL_NOTE = ('the renderer only emits what the tokenizer documents: no word inside a quoted string ends with a double quote, no doubled white space '
              'inside strings, nicknames are not all-digits and contain none of = ] ( [ " # /')
GUARDS = {'all': {'features>=3': 0.2, 'ballot-changed-by-withdrawal': 0.05}}


@st.composite
def cases(draw, tier):
    d = D(draw)
    nc = None
    if d.p(3):
        nc = d.choice([255, 256, 257])
    return bltgen.full_case(d, tier, ncand=nc)


def strategy(tier):
    return cases(tier)


def extra_chunks(tier, seed):
    return [65535, 65536] if tier == 'thorough' else [256]


def extra_cases(tier, seed, chunk):
    nc = chunk
    yield dict(ncand=nc, nseats=2, withdrawn=[3], undeclared=[], tie=None, names=None, title='big', source=None, comment=None, nicks=None,
               ids=None, file_options=None, layout=[0], bom=False,
               ballots=[[nc, [[nc], [1]]], [2, [[nc - 1], [nc], [3]]], [1, [[255], [256]]], [1, [[2, nc]]]])


def parse(case):
    text = gen.render_layout(case, case.get('layout') or [0])
    if case.get('bom'):
        fd, path = tempfile.mkstemp(prefix='c15-', suffix='.blt')
        try:
            with os.fdopen(fd, 'w', encoding='utf-8') as f:
                f.write('﻿' + text)
            return text, ElectionProfile(path=path)
        finally:
            os.unlink(path)
    return text, ElectionProfile(data=text)


def check(case):
    res = Result()
    try:
        text, p = parse(case)
    except ElectionProfileError as e:
        import re as _re
        res.fail('rejected', 'rejected|%s' % _re.sub(r'[0-9]+', 'N', str(e))[:40].replace('|', '/'), 'well-formed file rejected: %s' % e)
        tags(res, case, '')
        return res
    except Exception as e:      # pylint: disable=broad-except
        res.fail('crash', 'crash|%s' % exc_sig(e), repr(e))
        tags(res, case, '')
        return res
    exp = bltgen.expected(case)
    for k in ('nCand', 'nSeats', 'title', 'source', 'comment', 'candidateName', 'candidateOrder', 'tieOrder', 'nickName',
              'nBallots', 'options'):
        got = getattr(p, k)
        if got != exp[k]:
            res.fail('attr', 'attr|' + k, '%s: read %r, file denotes %r' % (k, _short(got), _short(exp[k])))
    for k in ('withdrawn', 'undeclared', 'eligible'):
        if set(getattr(p, k)) != exp[k]:
            res.fail('attr', 'attr|' + k, '%s: read %r, file denotes %r' % (k, sorted(getattr(p, k)), sorted(exp[k])))
    got_strict = [(b.multiplier, list(b.ranking)) for b in p.ballotLines]
    got_equal = [(b.multiplier, [list(r) for r in b.ranking]) for b in p.ballotLinesEqual]
    if got_strict != exp['strict']:
        res.fail('ballots', 'ballots|strict', 'strict ballot lines read %r, file denotes %r' % (_short(got_strict), _short(exp['strict'])))
    if got_equal != exp['equal']:
        res.fail('ballots', 'ballots|equal', 'equal-rank ballot lines read %r, file denotes %r' % (_short(got_equal), _short(exp['equal'])))
    for v in structural(p):
        res.fail('structure', 'structure|' + v[0], v[1])
    tags(res, case, text)
    return res


def _short(x):
    s = repr(x)
    return s if len(s) < 300 else s[:300] + '...'


def structural(p):
    "invariants of any accepted profile (shared with C16)"
    out = []
    nc = p.nCand
    wd = set(p.withdrawn)
    if not isinstance(nc, int) or nc < 1:
        return [('ncand', 'nCand=%r' % nc)]
    if set(p.eligible) | wd != set(range(1, nc + 1)) or set(p.eligible) & wd:
        out.append(('eligible', 'eligible %r and withdrawn %r do not partition 1..%d' % (sorted(p.eligible)[:20], sorted(wd)[:20], nc)))
    if not p.nSeats or p.nSeats > len(p.eligible):
        out.append(('seats', '%r seats for %d eligible candidates' % (p.nSeats, len(p.eligible))))
    total = 0
    for bl in list(p.ballotLines) + list(p.ballotLinesEqual):
        seen = set()
        if not isinstance(bl.multiplier, int) or bl.multiplier < 1:
            out.append(('multiplier', 'multiplier %r' % (bl.multiplier,)))
            break
        total += bl.multiplier
        ranks = [r if isinstance(r, (tuple, list)) else (r,) for r in bl.ranking]
        if not ranks:
            out.append(('empty-ballot', 'an empty ballot line is kept'))
        for rank in ranks:
            if not rank:
                out.append(('empty-rank', 'an empty rank is kept'))
            for c in rank:
                if c in wd:
                    out.append(('withdrawn-ranked', 'withdrawn candidate %d in a ranking' % c))
                if not 1 <= c <= nc:
                    out.append(('out-of-range', 'candidate id %r in a ranking (nCand=%d)' % (c, nc)))
                if c in seen:
                    out.append(('repeated', 'candidate %d repeated in a ranking' % c))
                seen.add(c)
    if total != p.nBallots:
        out.append(('nballots', 'nBallots %r, multipliers sum to %d' % (p.nBallots, total)))
    if p.nBallots < len(p.eligible):
        out.append(('few-ballots', '%d ballots for %d eligible candidates' % (p.nBallots, len(p.eligible))))
    for k in ('candidateName', 'candidateOrder', 'tieOrder', 'nickName'):
        if set(getattr(p, k)) != set(range(1, nc + 1)):
            out.append((k, '%s keys %r' % (k, sorted(getattr(p, k))[:20])))
    if sorted(p.tieOrder.values()) != list(range(1, nc + 1)) and set(p.tieOrder) == set(range(1, nc + 1)):
        out.append(('tie-order', 'tie order is not a permutation: %r' % (sorted(p.tieOrder.values())[:20],)))
    if not set(p.undeclared) <= set(range(1, nc + 1)):
        out.append(('undeclared', 'undeclared %r' % sorted(p.undeclared)[:20]))
    return out[:3]


def tags(res, case, text):
    wd = set(case.get('withdrawn') or [])
    feats = 0
    feats += ('#' in text or '/*' in text) and 1 or 0
    feats += 1 if case.get('nicks') else 0
    feats += 1 if wd else 0
    feats += 1 if case.get('ids') else 0
    feats += 1 if model.has_equal_ranks(case) else 0
    feats += 1 if any(' ' in n for n in (case.get('names') or [])) else 0
    changed = any(any(c in wd for rank in r for c in rank) for _, r in case['ballots'])
    if feats >= 3:
        res.tag('features>=3')
        res.nontrivial = True
    if changed:
        res.tag('ballot-changed-by-withdrawal')
    if case.get('ids'):
        res.tag('ballot-ids')
    if case.get('bom'):
        res.tag('bom')
    if case['ncand'] >= 255:
        res.tag('ncand>=255')


def shrink_candidates(case):
    from ..shrink import election_candidates
    for key in ('bom', 'source', 'comment', 'nicks', 'file_options', 'ids'):
        if case.get(key):
            c = dict(case)
            c[key] = None if key != 'bom' else False
            if key == 'source':
                c['comment'] = None
            yield c
    lay = case.get('layout') or []
    for i in range(len(lay)):
        if len(lay) > 1:
            yield dict(case, layout=lay[:i] + lay[i + 1:])
    if lay != [0]:
        yield dict(case, layout=[0])
    if case.get('title') != 'T':
        yield dict(case, title='T')
    for c in election_candidates(case):
        if c.get('ids') and len(c['ids']) != len(c['ballots']):
            c['ids'] = ['b%d' % i for i in range(len(c['ballots']))]
        if c.get('nicks') and len(c['nicks']) != c['ncand']:
            c['nicks'] = ['k%d' % i for i in range(c['ncand'])]
        yield c


def valid_case(case):
    if case.get('ids') and (len(case['ids']) != len(case['ballots']) or any(m != 1 for m, _ in case['ballots'])):
        return False
    return model.valid(case)
