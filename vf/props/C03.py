"""C03 - statutory rules carry out their published procedure, stage by stage

Oracle 1: differential against independent reference counts (vf/ref/*.py) written from the rule texts;
Oracle 2: wigm configured as fixed/4 must reproduce wigm-prf's record.
Where droop departs from explicit text and the golden files pin its behaviour, the reference has a switch
that reproduces droop for that clause only: droop must equal the switched reference exactly (new violation
otherwise), and a difference between the switched and the literal reference on a case is reported as an
instance of the corresponding known finding.
"""
import re
from fractions import Fraction

from hypothesis import strategies as st

from .. import gen, model, drive
from ..gen import D
from ..run import Result
from . import common
from ..ref import wigm_prf, scotland, cfer, mpls, meek_prf, qpq

ID = 'C03'
LEVEL = 'exploration'
N = {'quick': 32000, 'thorough': 800000}
RULE = ('generated strict-ranking elections (party slates with chained transfers, mirrored ballots for exact ties, quota landings; undeclared '
        'write-ins for mpls; Scottish prior-stage and three-way-tie templates, a fractional quota landing, narrow-surplus chains with zero-valued papers) x the 8 statutory rule names, plus wigm fixed/4 vs wigm-prf; the complete stage '
        'history (quota, every election/exclusion/surplus event, every tally and the non-transferable total after each event, tie sets for '
        'Meek/QPQ) is compared with a reference count; non-trivial = the count has a surplus transfer and an exclusion, or a logged tie, or '
        'a batch exclusion; distinct = distinct case JSON')
TECHNIQUE = 'property-based differential testing against independently written reference counts (one per published procedure); differential wigm(fixed,4) vs wigm-prf'
LEVEL_TEXT = 'generated elections counted by droop and by a clause-by-clause reference on scaled integers; histories compared to the last digit'
LEVEL_NOTE = ('the references are one reading of six legal/technical texts; conventions adopted where a text is silent are listed in DESIGN section 6; '
              'a misreading shared with droop\'s author is invisible')
GUARDS = {'all': {'surplus+exclusion': 0.15, 'tie-logged': 0.08}}
MAX_REPORT = 16


@st.composite
def cases(draw, tier):
    d = D(draw)
    if d.p(4):
        return gen.scotland_prior_stage_case(d) if d.p(60) else gen.scotland_threeway_case(d)
    if d.int(0, 99) == 0:
        return gen.meek_prf_boundary_case(d)        # total surplus exactly omega at a non-electing iteration (B.2.e: "<", not "<=")
    if d.p(2):
        return gen.narrow_chain_case(d, statutory_only=True)      # values truncated to exactly zero beside valued papers
    if d.p(2):
        case = gen.fractional_landing_case(d)        # a tally exactly on a fractional threshold (>= versus >)
        if case['rule'] == 'wigm' and case['options'].get('precision') != 4:
            case.update(rule='wigm-prf', options={})
        return case
    rules = model.STATUTORY + ('wigm',)
    case = draw(gen.election_cases(tier=tier, rules=rules, default_options=True, chains=True))
    if case['rule'] == 'wigm':
        case['options'] = {'arithmetic': 'fixed', 'precision': 4}
    nc = case['ncand']
    if case['tie'] is None:
        case['tie'] = d.perm(range(1, nc + 1))
    if nc >= 2 and d.p(40):
        m, r = d.choice(case['ballots'])
        x, y = d.sample(range(1, nc + 1), 2)
        sw = {x: y, y: x}
        case['ballots'].append([m, [[sw.get(c, c) for c in rank] for rank in r]])
    return case


def strategy(tier):
    return cases(tier)


# ------------------------------------------------------------------ droop side: projection onto the canonical history

QUOTA_KINDS = ('Elect', 'Elect, transfer pending', 'Candidate at threshold')


def raw(x, S):
    v = x * S
    return int(v) if v.denominator == 1 else v


def project_gregory(o, S, rule):
    acts = [a for a in o.actions if a['tag'] != 'log']

    def sn(a):
        cs = a['cstate']
        votes = {c: raw(s['vote'], S) for c, s in cs.items() if 'vote' in s}
        st_ = {c: s['state'][0] for c, s in cs.items() if s['state'] != 'withdrawn'}
        return (votes, raw(a['nt_votes'], S), st_)
    from ..exact import frac
    h = [('Q', raw(common.header_quota(o), S))]
    i = 0
    begun = False
    extra = []
    while i < len(acts):
        a = acts[i]
        if a['tag'] == 'begin' or (a['tag'] == 'count' and not begun):
            h.append(('BEGIN', sn(a)))
            begun = True
        elif a['tag'] == 'elect':
            kind = a['msg'].split(':')[0]
            if kind == 'Elect pending':
                i += 1
                continue
            grp = []
            isq = kind in QUOTA_KINDS
            while i < len(acts) and acts[i]['tag'] == 'elect' and (acts[i]['msg'].split(':')[0] in QUOTA_KINDS) == isq \
                    and acts[i]['msg'].split(':')[0] != 'Elect pending':
                grp.append(common.named_candidate(o, acts[i]['msg']))
                i += 1
            i -= 1
            h.append(('ELECT', frozenset(grp)))
        elif a['tag'] == 'defeat':
            grp = []
            while i < len(acts) and acts[i]['tag'] == 'defeat':
                grp.append(common.named_candidate(o, acts[i]['msg']))
                i += 1
            if i < len(acts) and acts[i]['tag'] == 'transfer' and acts[i]['msg'].startswith('Transfer defeated'):
                tr = common.parse_transfer(o, acts[i]['msg'])
                if tr is None or sorted(tr[1]) != sorted(grp):
                    extra.append('transfer message %r does not name the excluded %r' % (acts[i]['msg'], grp))
                h.append(('EXCLUDE', frozenset(grp), sn(acts[i])))
            else:
                h.append(('EXCLUDE', frozenset(grp), None))
                i -= 1
        elif a['tag'] == 'transfer':
            tr = common.parse_transfer(o, a['msg'])
            if tr and tr[0] == 'surplus':
                c = tr[1][0]
                prev = acts[i - 1]
                amount = raw(prev['cstate'][c]['vote'] - prev['quota'], S)
                try:
                    shown = raw(Fraction(tr[2]), S)
                except ValueError:
                    shown = None
                if shown != amount:
                    extra.append('surplus message %r, tally - quota = %s' % (a['msg'], amount))
                if amount:
                    h.append(('SURPLUS', c, amount, sn(a)))
        elif a['tag'] == 'end':
            h.append(('FINAL', sn(a)))
        i += 1
    if rule in ('cfer', 'cfer-batch'):
        h = merge_simultaneous(h)
    return h, extra


def merge_simultaneous(h):
    "CfER transfers every surplus of a round: order inside the round is not statutory - sort, keep the state after the last"
    out = []
    run = []
    for e in h + [('END',)]:
        if e[0] == 'SURPLUS':
            run.append(e)
            continue
        if run:
            last = run[-1][3]
            run = sorted(run, key=lambda e: e[1])
            out.extend([(e[0], e[1], e[2], None) for e in run[:-1]] + [run[-1][:3] + (last,)])
            run = []
        if e[0] != 'END':
            out.append(e)
    return out


def norm_ref(h, rule):
    h = [e for e in h if e[0] != 'USED']
    if rule in ('cfer', 'cfer-batch'):
        h = merge_simultaneous(h)
    return h


def strict_ballots(case):
    return [(m, [rk[0] for rk in r]) for m, r in model.kept_ballots(case)]


def first_diff(a, b):
    for i, (x, y) in enumerate(zip(a, b)):
        if x != y:
            return i, x, y
    if len(a) != len(b):
        i = min(len(a), len(b))
        return i, (a[i] if i < len(a) else None), (b[i] if i < len(b) else None)
    return None


def describe(e):
    if e is None:
        return 'nothing'
    if e[0] in ('SURPLUS',) and e[-1] is not None:
        return '%s %s amount %s -> votes %s nt %s' % (e[0], e[1], e[2], e[3][0], e[3][1])
    if e[0] == 'EXCLUDE' and len(e) == 3 and e[2] is not None:
        return 'EXCLUDE %s -> votes %s nt %s' % (sorted(e[1]), e[2][0], e[2][1])
    s = repr(e)
    return s if len(s) < 300 else s[:300] + '...'


# ------------------------------------------------------------------ the check

def check(case):
    res = Result()
    rule = case['rule']
    o = drive.run(case)
    if common.failed_run(res, case, o, construct_is_violation=False):
        if o.exc is not None and o.stage == 'count':
            res.fail('count-raises', 'count-raises|%s|%s' % (rule, drive.exc_sig(o.exc)), repr(o.exc))
        return res
    wd = set(case.get('withdrawn') or [])
    if wd:
        # the references count the election with the withdrawn candidates deleted (C11 decides that equivalence)
        from .C11 import delete_withdrawn
        cd = delete_withdrawn(case)
        keep = [c for c in range(1, case['ncand'] + 1) if c not in wd]
        back = {i + 1: c for i, c in enumerate(keep)}
    else:
        cd = case
        back = None
    nc, ns = cd['ncand'], cd['nseats']
    ballots = strict_ballots(cd)
    tie = cd.get('tie') or list(range(1, nc + 1))
    st_ = common.stats(o)
    if rule == 'wigm':
        o2 = drive.run(dict(case, rule='wigm-prf', options={}))
        if not o2.ok or o2.stage != 'done':
            res.skipped = 'wigm-prf-fails'
            return res
        if o.actions != o2.actions:
            k = next((i for i, (x, y) in enumerate(zip(o.actions, o2.actions)) if x != y), min(len(o.actions), len(o2.actions)))
            res.fail('wigm-vs-prf', 'wigm-vs-prf', 'wigm fixed/4 and wigm-prf records differ at action %d: %r vs %r' %
                     (k, o.actions[k]['msg'] if k < len(o.actions) else None, o2.actions[k]['msg'] if k < len(o2.actions) else None))
        elif (o.elected, o.defeated) != (o2.elected, o2.defeated):
            res.fail('wigm-vs-prf', 'wigm-vs-prf|winners', '%r vs %r' % (o.elected, o2.elected))
    elif rule in model.GREGORY:
        S = o.arith.scale
        dh, extra = project_gregory(o, S, rule)
        if back:
            dh = relabel(dh, {v: k for k, v in back.items()})
        for x in extra:
            res.fail('message', 'message|' + rule, x)
        und = [c for c in (cd.get('undeclared') or [])]
        variants = ref_variants(rule, nc, ns, ballots, tie, und)
        name0, h0 = variants[0]
        d = first_diff(dh, norm_ref(h0, rule))
        if d is not None:
            res.fail('history', 'history|' + rule, 'event %d: droop %s; reference (%s) %s' % (d[0], describe(d[1]), name0, describe(d[2])))
        else:
            for name, h in variants[1:]:
                if norm_ref(h, rule) != norm_ref(h0, rule):
                    dd = first_diff(norm_ref(h0, rule), norm_ref(h, rule))
                    res.fail('text-divergence', 'text-divergence|%s|%s' % (rule, name), 'event %d: droop %s; literal text %s' %
                             (dd[0], describe(dd[1]), describe(dd[2])))
        if rule == 'cfer-batch':
            for u in sorted(next((e[1] for e in h0 if e[0] == 'USED'), ())):
                res.tag('cfer-batch-condition-' + u)
    elif rule == 'meek-prf':
        check_meek_prf(res, o, nc, ns, ballots, tie, back)
    else:
        check_qpq(res, o, nc, ns, ballots, tie, back)
    res.tag('rule:' + rule)
    if (st_['surplus_transfers'] and st_['defeats']) or st_['ties'] or st_['batch'] >= 2:
        res.nontrivial = True
    if st_['surplus_transfers'] and st_['defeats']:
        res.tag('surplus+exclusion')
    if st_['ties']:
        res.tag('tie-logged')
    if any(a['tag'] == 'tie' and 'prior stage' in a['msg'] for a in o.actions):
        res.tag('scotland-prior-stage')
    if st_['batch'] >= 2:
        res.tag('batch')
    return res


def relabel(h, f):
    "map droop candidate ids onto the ids of the election with withdrawn candidates deleted"
    def s(sn):
        if sn is None:
            return None
        return ({f[c]: v for c, v in sn[0].items()}, sn[1], {f[c]: v for c, v in sn[2].items()})
    out = []
    for e in h:
        if e[0] in ('BEGIN', 'FINAL'):
            out.append((e[0], s(e[1])))
        elif e[0] == 'ELECT':
            out.append(('ELECT', frozenset(f[c] for c in e[1])))
        elif e[0] == 'EXCLUDE':
            out.append(('EXCLUDE', frozenset(f[c] for c in e[1]), s(e[2])))
        elif e[0] == 'SURPLUS':
            out.append(('SURPLUS', f[e[1]], e[2], s(e[3])))
        else:
            out.append(e)
    return out


def ref_variants(rule, nc, ns, ballots, tie, und):
    "[(name, history)]: first the reference with droop's documented departures switched on, then one literal-text variant per departure"
    if rule in ('wigm-prf', 'wigm-prf-batch'):
        b = rule.endswith('batch')
        return [('D.3 as placed by droop', wigm_prf.count(nc, ns, ballots, tie, batch=b, d3='droop')),
                ('d3-placement', wigm_prf.count(nc, ns, ballots, tie, batch=b, d3='text'))]
    if rule == 'scotland':
        return [('SSI 2007/42', scotland.count(nc, ns, ballots, tie))]
    if rule in ('cfer', 'cfer-batch'):
        b = rule.endswith('batch')
        return [('droop threshold', cfer.count(nc, ns, ballots, tie, batch=b)),
                ('integer-threshold', cfer.count(nc, ns, ballots, tie, batch=b, quota_droop=False))]
    if rule == 'mpls':
        return [('droop clause c transfer, write-in double count', mpls.count(nc, ns, ballots, tie, und)),
                ('clause-c-final-round', mpls.count(nc, ns, ballots, tie, und, c_always_transfer=False)),
                ('write-in-double-count', mpls.count(nc, ns, ballots, tie, und, und_double=False))]
    raise ValueError(rule)


def check_meek_prf(res, o, nc, ns, ballots, tie, back):
    S = o.arith.scale
    f = {v: k for k, v in back.items()} if back else None
    rid = (lambda c: f[c]) if f else (lambda c: c)
    ref = meek_prf.count(nc, ns, ballots, tie)
    acts = [a for a in o.actions if a['tag'] != 'log']
    ev = []

    def sn(a, with_surplus):
        cs = {rid(c): s for c, s in a['cstate'].items() if s['state'] != 'withdrawn'}
        out = ({c: raw(s['vote'], S) for c, s in cs.items()}, {c: raw(s['kf'], S) for c, s in cs.items()}, raw(a['residual'], S), raw(a['quota'], S))
        return out + ((raw(a['surplus'], S),) if with_surplus else ())
    i = 0
    while i < len(acts):
        a = acts[i]
        epi = common.epilogue_msg(a['msg'])
        if a['tag'] == 'elect' and not epi:
            grp = []
            while i < len(acts) and acts[i]['tag'] == 'elect' and not common.epilogue_msg(acts[i]['msg']):
                grp.append(rid(common.named_candidate(o, acts[i]['msg'])))
                i += 1
            i -= 1
            ev.append(('ELECT', frozenset(grp), sn(acts[i], False)))
        elif a['tag'] == 'defeat' and not epi:
            c = rid(common.named_candidate(o, a['msg']))
            status = 'stable' if 'stable surplus' in a['msg'] else 'omega'
            tied = frozenset([c])
            if i and acts[i - 1]['tag'] == 'tie':
                t = common.parse_tie(o, acts[i - 1]['msg'])
                if t:
                    tied = frozenset(rid(x) for x in t['tied'])
            ev.append(('EXCLUDE', c, status, tied, sn(a, True)))
        elif a['tag'] in ('elect', 'defeat') and epi:
            grp = []
            tag = a['tag']
            while i < len(acts) and acts[i]['tag'] == tag and common.epilogue_msg(acts[i]['msg']):
                grp.append(rid(common.named_candidate(o, acts[i]['msg'])))
                i += 1
            i -= 1
            ev.append(('ELECTREM' if tag == 'elect' else 'EXCLREM', frozenset(grp)))
        elif a['tag'] == 'end':
            cs = a['cstate']
            ev.append(('FINAL', frozenset(rid(c) for c, s in cs.items() if s['state'] == 'elected'),
                       frozenset(rid(c) for c, s in cs.items() if s['state'] == 'defeated'),
                       {rid(c): raw(s['kf'], S) for c, s in cs.items() if s['state'] != 'withdrawn'}))
        i += 1
    rv = []
    for e in ref:
        if e[0] == 'ELECT':
            rv.append(('ELECT', e[1], e[2][:4]))
        else:
            rv.append(e)
    d = first_diff(ev, rv)
    if d is not None:
        res.fail('history', 'history|meek-prf', 'event %d: droop %s; reference %s' % (d[0], describe(d[1]), describe(d[2])))


def check_qpq(res, o, nc, ns, ballots, tie, back):
    S = o.arith.scale
    f = {v: k for k, v in back.items()} if back else None
    rid = (lambda c: f[c]) if f else (lambda c: c)
    ref = qpq.count(nc, ns, ballots, tie)
    acts = [a for a in o.actions if a['tag'] != 'log']
    ev = []
    for i, a in enumerate(acts):
        if a['tag'] in ('elect', 'defeat') and not common.epilogue_msg(a['msg']):
            c = rid(common.named_candidate(o, a['msg']))
            tied = frozenset([c])
            if i and acts[i - 1]['tag'] == 'tie':
                t = common.parse_tie(o, acts[i - 1]['msg'])
                if t:
                    tied = frozenset(rid(x) for x in t['tied'])
            q = {rid(x): raw(s['quotient'], S) for x, s in a['cstate'].items() if 'quotient' in s}
            ev.append(('ELECT' if a['tag'] == 'elect' else 'EXCLUDE', c, tied, q, raw(a['quota'], S)))
        elif a['tag'] == 'end':
            cs = a['cstate']
            ev.append(('FINAL', frozenset(rid(c) for c, s in cs.items() if s['state'] == 'elected'),
                       frozenset(rid(c) for c, s in cs.items() if s['state'] == 'defeated')))
    # droop shows stale quotients of already decided candidates: compare those the stage computes
    ev2 = []
    for e, r in zip(ev, ref):
        if e[0] in ('ELECT', 'EXCLUDE') and r[0] == e[0]:
            ev2.append(e[:3] + ({c: e[3].get(c) for c in r[3]}, e[4]))
        else:
            ev2.append(e)
    ev2 += ev[len(ref):]
    d = first_diff(ev2, ref)
    if d is not None:
        res.fail('history', 'history|qpq', 'event %d: droop %s; reference %s' % (d[0], describe(d[1]), describe(d[2])))


def valid_case(case):
    if case['rule'] == 'wigm' and case.get('options') != {'arithmetic': 'fixed', 'precision': 4}:
        return False        # the wigm clause of the property is about this configuration only
    return model.valid(case)
