"""C01 - every count terminates with the seats filled and every candidate decided"""
from hypothesis import strategies as st

from .. import gen, model, drive
from ..gen import D
from ..run import Result
from ..drive import exc_sig, ProgressBound
from . import common

ID = 'C01'
LEVEL = 'exploration'
N = {'quick': 48000, 'thorough': 1200000}
RULE = ('election cases from the structured mixture generator (all 11 rules x accepted options; '
        'strict rankings, withdrawn/undeclared sets under every rule, tie orders; 2 % of the Gregory counts with more than 2^53 ballots); non-trivial = count has >= 2 rounds, '
        'or ends through the elect/defeat-remaining epilogue, or has a batch exclusion, or has '
        'withdrawn/undeclared candidates; distinct = distinct canonical case JSON')
GUARDS = {'all': {'seats>supported': 0.02, 'batch': 0.02, 'withdrawn': 0.05}}
ASSUMPTIONS = ['termination is observed within a deterministic round bound, not proved',
               'Meek/Warren with rational arithmetic beyond 12 iterations is not explored (budget)']


@st.composite
def cases(draw, tier):
    d = D(draw)
    if d.int(0, 149) == 0:
        return gen.many_candidates_case(d, rules=model.ALL_RULES)       # candidate ids beyond 256, most of them withdrawn
    case = draw(gen.election_cases(tier=tier))
    if case['rule'] in model.GREGORY and d.p(2):
        case = gen.astronomic(d, case)      # an electorate beyond 2^53 ballots: Gregory counts are integer arithmetic throughout
    return case


def strategy(tier):
    return cases(tier)


def check(case):
    res = Result()
    o = drive.run(case, snap=False)
    if common.failed_run(res, case, o, clause='construct'):
        if o.exc is not None and o.stage == 'attributes':
            res.fail('attributes', 'attributes|%s' % common.base_sig(case, o), 'Election.elected/.defeated/.withdrawn after the count: %r' % (o.exc,))
        if o.exc is not None and o.stage == 'count':
            kind = 'progress-bound' if isinstance(o.exc, ProgressBound) else 'count-raises'
            res.fail(kind, '%s|%s|%s' % (kind, common.base_sig(case, o), exc_sig(o.exc)), repr(o.exc))
        return res
    base = common.base_sig(case, o)
    wd = set(case.get('withdrawn') or [])
    und = set(case.get('undeclared') or []) if case['rule'] == 'mpls' else set()
    nc = case['ncand']
    electable = [c for c in range(1, nc + 1) if c not in wd and c not in und]
    want = min(case['nseats'], len(electable))
    if len(o.elected) != want:
        res.fail('winners', 'winners|' + base, 'elected %s, expected %d winners' % (o.elected, want))
    el, de = set(o.elected), set(o.defeated)
    if el & de:
        res.fail('both', 'both|' + base, 'elected and defeated: %s' % sorted(el & de))
    for c in range(1, nc + 1):
        if c in wd:
            if c in el or c in de:
                res.fail('withdrawn-decided', 'withdrawn-decided|' + base, 'withdrawn %d elected/defeated' % c)
        elif c not in el and c not in de:
            res.fail('undecided', 'undecided|' + base, 'candidate %d neither elected nor defeated' % c)
    end = o.actions[-1]
    if end['tag'] != 'end':
        res.fail('no-end', 'no-end|' + base, 'last action is %s' % end['tag'])
    else:
        for c, s in end['cstate'].items():
            if c not in wd and s['state'] not in ('elected', 'defeated'):
                res.fail('undecided', 'undecided|' + base, 'candidate %d is %s at end' % (c, s['state']))
    for a in o.actions:
        if a['tag'] == 'log':
            continue
        for c in wd:
            s = a['cstate'].get(c)
            if s is None or s['state'] != 'withdrawn' or 'vote' in s:
                res.fail('withdrawn-state', 'withdrawn-state|' + base, 'withdrawn %d: %r at %s' % (c, s, a['tag']))
                break
    for b in o.E.ballots + o.E.ballotsEqual:
        for rank in b.ranking:
            for c in (rank if isinstance(rank, tuple) else (rank,)):
                if c in wd:
                    res.fail('withdrawn-credited', 'withdrawn-credited|' + base, 'ballot ranks withdrawn %d' % c)
    st = common.stats(o)
    supported = set(r[0][0] for _, r in model.kept_ballots(case))
    if st['rounds'] >= 2 or st['epilogue'] or st['batch'] >= 2 or wd or und:
        res.nontrivial = True
    res.tag('rule:' + case['rule'])
    if case['nseats'] > len(supported - und):
        res.tag('seats>supported')
    if st['batch'] >= 2:
        res.tag('batch')
    if wd:
        res.tag('withdrawn')
    if und:
        res.tag('undeclared')
    if st['epilogue']:
        res.tag('epilogue')
    if st['rounds'] >= 3:
        res.tag('rounds>=3')
    return res

TECHNIQUE = 'property-based testing: Hypothesis-generated elections x rules x options, validity predicate on the outcome + deterministic round bound'
LEVEL_TEXT = ('generated search (about 5*10^4 counts per quick run, 10^6 thorough, plus exhaustive small scope) with a validity '
              'predicate on the final outcome and every recorded action; finds counter-examples, never proves absence')
LEVEL_NOTE = 'trusts the case model -> BLT rendering and droop\'s own profile reader for input; termination only observed within 3*ncand+3 rounds ((ncand+1)^2+2 for qpq)'


# ---- thorough tier: exhaustive small scope (enumeration inside the same harness and oracle)
EXTRA_EXHAUSTIVE = {'quick': False, 'thorough': False}     # the small scope is complete; the generated part is a sample


def extra_chunks(tier, seed):
    from .. import smallscope
    return smallscope.chunks(model.ALL_RULES) if tier == 'thorough' else []


def extra_cases(tier, seed, chunk):
    from .. import smallscope
    return smallscope.cases(chunk, decorate=None)
