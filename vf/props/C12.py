"""C12 - fixed-point and rational arithmetic compute exactly what they claim

case = {'kind': 'fixed', 'p': precision, 'a': raw, 'b': raw, 'c': raw, 'k': int}
     | {'kind': 'rational', 'a': [num, den], 'b': [num, den], 'c': [num, den], 'k': int}
One case evaluates every public operation on the operand triple; each operation is one evaluation.
Oracle: fractions.Fraction + integer floor; droop's operators are never used on the oracle side.
"""
import itertools
from fractions import Fraction

from hypothesis import strategies as st

from ..run import Result
from ..gen import D

from droop.options import Options
from droop.values.fixed import Fixed
from droop.values.rational import Rational

ID = 'C12'
LEVEL = 'exploration'
N = {'quick': 40000, 'thorough': 1500000}
RULE = ('operand triples (raw scaled integers of all signs, zero, +-1 ulp, magnitudes to 10^60, precision 0..30, display option absent or -1..p+2; '
        'rational numerators/denominators to 10^40) x every public operation; plus an exhaustive grid of small raw values; '
        'non-trivial = some exact result is not representable at p places, or an operand is negative, or |operand| > 10^18; '
        'distinct = distinct operand tuple')
TECHNIQUE = 'property-based testing against a reference model (fractions.Fraction + floor) with an exhaustive small-operand grid'
LEVEL_TEXT = ('reference-model comparison of every operator/classmethod of Fixed and Rational on generated operands; '
              'the grid precision 0..2 x raw -25..25 (thorough) is enumerated completely')
LEVEL_NOTE = 'trusts Python integers and fractions.Fraction; the exhaustive part covers only the small grid'
EXTRA_EXHAUSTIVE = {'quick': False, 'thorough': False}   # the grid is complete, the random part is not


def raw_value(d, p):
    t = d.int(0, 9)
    if t == 0:
        return d.choice([0, 1, -1, 10 ** p, -10 ** p, 10 ** p + 1, 10 ** p - 1])
    if t <= 4:
        return d.int(-2000, 2000)
    if t <= 7:
        return d.int(-10 ** 20, 10 ** 20)
    return d.int(-10 ** 60, 10 ** 60)


@st.composite
def cases(draw, tier):
    d = D(draw)
    if d.p(75):
        p = d.int(0, 6) if d.p(60) else d.int(0, 30)
        return dict(kind='fixed', p=p, a=raw_value(d, p), b=raw_value(d, p), c=raw_value(d, p),
                    k=d.int(-50, 50) if d.p(80) else d.int(-10 ** 30, 10 ** 30),
                    disp=None if d.p(55) else d.int(-1, p + 2))     # display digits must not influence any operation

    def q():
        big = d.p(30)
        n = d.int(-10 ** 40, 10 ** 40) if big else d.int(-200, 200)
        m = d.int(1, 10 ** 40) if big else d.int(1, 200)
        return [n, m]
    return dict(kind='rational', a=q(), b=q(), c=q(), k=d.int(-50, 50))


def strategy(tier):
    return cases(tier)


def extra_chunks(tier, seed):
    if tier == 'quick':
        return [(p, 6) for p in (0, 1)]
    return [(p, 25, a) for p in (0, 1, 2) for a in range(-25, 26)]


def extra_cases(tier, seed, chunk):
    if len(chunk) == 2:
        p, lim = chunk
        rng = range(-lim, lim + 1)
        for a, b, c in itertools.product(rng, rng, rng):
            yield dict(kind='fixed', p=p, a=a, b=b, c=c, k=b)
    else:
        p, lim, a = chunk
        rng = range(-lim, lim + 1)
        for b, c in itertools.product(rng, rng):
            yield dict(kind='fixed', p=p, a=a, b=b, c=c, k=c)


def init_fixed(p, disp=None):
    if p == 0:
        o = {'arithmetic': 'integer'}
    else:
        o = {'arithmetic': 'fixed', 'precision': p}
    if disp is not None:
        o['display'] = disp
    Fixed.initialize(Options(o))


def outcome(f):
    try:
        return ('ok', f())
    except ZeroDivisionError:
        return ('zde', None)
    except ValueError:
        return ('ve', None)
    except Exception as e:      # pylint: disable=broad-except
        return ('exc:' + type(e).__name__, None)


def floor_at(x, S):
    return (x.numerator * S) // x.denominator     # raw integer, floor toward -inf


def check(case):
    if case['kind'] == 'fixed':
        return check_fixed(case)
    return check_rational(case)


def check_fixed(case):
    res = Result()
    res.evals = 0
    p = case['p']
    S = 10 ** p
    init_fixed(p, case.get('disp'))
    ra, rb, rc, k = case['a'], case['b'], case['c'], case['k']
    A, B, C = Fraction(ra, S), Fraction(rb, S), Fraction(rc, S)
    x, y, z = Fixed(ra, True), Fixed(rb, True), Fixed(rc, True)
    inexact = False

    def expect(op, got, want_kind, want_raw=None):
        res.evals += 1
        kind, val = got
        if want_kind != kind:
            res.fail(op, 'fixed|%s|outcome' % op, 'p=%d a=%d b=%d c=%d k=%d: outcome %s, expected %s' % (p, ra, rb, rc, k, kind, want_kind))
            return
        if kind != 'ok':
            return
        if want_raw is None:
            return
        if type(val) is not Fixed:
            res.fail(op, 'fixed|%s|type' % op, 'result type %s' % type(val).__name__)
            return
        if val._value != want_raw:
            res.fail(op, 'fixed|%s|value' % op, 'p=%d a=%d b=%d c=%d k=%d: got raw %d, exact model says %d' %
                     (p, ra, rb, rc, k, val._value, want_raw))

    def rounded(exact, mode):
        nonlocal inexact
        fl = floor_at(exact, S)
        ex = Fraction(fl, S) == exact
        if not ex:
            inexact = True
        return fl if (mode == 'down' or ex) else fl + 1

    # exact operations
    expect('add', outcome(lambda: x + y), 'ok', ra + rb)
    expect('sub', outcome(lambda: x - y), 'ok', ra - rb)
    expect('add-int', outcome(lambda: x + k), 'ok', ra + k * S)
    expect('sub-int', outcome(lambda: x - k), 'ok', ra - k * S)
    expect('mul-int', outcome(lambda: x * k), 'ok', ra * k)
    expect('neg', outcome(lambda: -x), 'ok', -ra)
    expect('pos', outcome(lambda: +x), 'ok', ra)
    expect('abs', outcome(lambda: abs(x)), 'ok', abs(ra))
    res.evals += 1
    if bool(x) != (ra != 0):
        res.fail('bool', 'fixed|bool|value', 'bool(%d)' % ra)
    # truncating operations
    expect('mul', outcome(lambda: x * y), 'ok', rounded(A * B, 'down'))
    if rb != 0:
        expect('truediv', outcome(lambda: x / y), 'ok', rounded(A / B, 'down'))
        expect('floordiv', outcome(lambda: x // y), 'ok', rounded(A / B, 'down'))
    else:
        expect('truediv', outcome(lambda: x / y), 'zde')
        expect('floordiv', outcome(lambda: x // y), 'zde')
    if k != 0:
        expect('floordiv-int', outcome(lambda: x // k), 'ok', rounded(A / k, 'down'))
    else:
        expect('floordiv-int', outcome(lambda: x // k), 'zde')
    for mode in ('down', 'up'):
        expect('mul-' + mode, outcome(lambda: Fixed.mul(x, y, round=mode)), 'ok', rounded(A * B, mode))
        expect('mul-int-' + mode, outcome(lambda: Fixed.mul(x, k, round=mode)), 'ok', rounded(A * k, mode))
        if rb != 0:
            expect('div-' + mode, outcome(lambda: Fixed.div(x, y, round=mode)), 'ok', rounded(A / B, mode))
        else:
            expect('div-' + mode, outcome(lambda: Fixed.div(x, y, round=mode)), 'zde')
        if rc != 0:
            expect('muldiv-' + mode, outcome(lambda: Fixed.muldiv(x, y, z, round=mode)), 'ok', rounded(A * B / C, mode))
        else:
            expect('muldiv-' + mode, outcome(lambda: Fixed.muldiv(x, y, z, round=mode)), 'zde')
    for bad in (None, 'nearest'):
        expect('mul-badround', outcome(lambda: Fixed.mul(x, y, round=bad)), 've')
        if rb != 0:
            expect('div-badround', outcome(lambda: Fixed.div(x, y, round=bad)), 've')
        if rc != 0:
            expect('muldiv-badround', outcome(lambda: Fixed.muldiv(x, y, z, round=bad)), 've')
    # comparisons
    for name, f, want in (('lt', lambda: x < y, A < B), ('le', lambda: x <= y, A <= B), ('eq', lambda: x == y, A == B),
                          ('ne', lambda: x != y, A != B), ('ge', lambda: x >= y, A >= B), ('gt', lambda: x > y, A > B)):
        res.evals += 1
        got = outcome(f)
        if got != ('ok', want):
            res.fail(name, 'fixed|%s|value' % name, 'p=%d a=%d b=%d: %s gives %r' % (p, ra, rb, name, got))
    res.evals += 1
    got = outcome(lambda: Fixed.min([x, y, z]))
    if got[0] != 'ok' or type(got[1]) is not Fixed or got[1]._value != min(ra, rb, rc):
        res.fail('min', 'fixed|min|value', 'min(%d,%d,%d) -> %r' % (ra, rb, rc, got))
    # operands are not mutated
    if (x._value, y._value, z._value) != (ra, rb, rc):
        res.fail('mutation', 'fixed|mutation', 'operands changed: %r' % ((x._value, y._value, z._value),))
    # the constructor scales integers
    res.evals += 1
    if Fixed(k)._value != k * S:
        res.fail('ctor', 'fixed|ctor|value', 'Fixed(%d)' % k)
    if inexact or min(ra, rb, rc) < 0 or max(abs(ra), abs(rb), abs(rc)) > 10 ** 18 * S:
        res.nontrivial = True
    res.tag('fixed', 'fixed-p%s' % (p if p <= 2 else '3+'))
    if case.get('disp') is not None and 0 <= case['disp'] < p:
        res.tag('display-below-precision')
    if inexact:
        res.tag('inexact')
    return res


def check_rational(case):
    res = Result()
    res.evals = 0
    Rational.initialize(Options({'arithmetic': 'rational'}))
    A, B, C = (Fraction(*case[n]) for n in 'abc')
    k = case['k']
    x, y, z = Rational(A), Rational(B), Rational(C)

    def expect(op, f, want):
        res.evals += 1
        got = outcome(f)
        if want is None:
            if got[0] != 'zde':
                res.fail(op, 'rational|%s|outcome' % op, '%r: expected ZeroDivisionError, got %r' % (case, got))
            return
        if got[0] != 'ok':
            res.fail(op, 'rational|%s|outcome' % op, '%r: %r' % (case, got))
        elif not isinstance(got[1], Rational):
            res.fail(op, 'rational|%s|type' % op, '%r: result type %s' % (case, type(got[1]).__name__))
        elif Fraction(got[1].numerator, got[1].denominator) != want:
            res.fail(op, 'rational|%s|value' % op, '%r: got %r expected %r' % (case, got[1], want))

    expect('add', lambda: x + y, A + B)
    expect('sub', lambda: x - y, A - B)
    expect('mul', lambda: x * y, A * B)
    expect('add-int', lambda: x + k, A + k)
    expect('radd-int', lambda: k + x, A + k)
    expect('sub-int', lambda: x - k, A - k)
    expect('rsub-int', lambda: k - x, k - A)
    expect('mul-int', lambda: x * k, A * k)
    expect('rmul-int', lambda: k * x, A * k)
    expect('neg', lambda: -x, -A)
    expect('pos', lambda: +x, A)
    expect('abs', lambda: abs(x), abs(A))
    expect('truediv', lambda: x / y, A / B if B else None)
    expect('floordiv', lambda: x // y, Fraction((A / B).numerator // (A / B).denominator) if B else None)
    expect('truediv-int', lambda: x / k, A / k if k else None)
    for mode in ('down', 'up', None):
        expect('mul-m', lambda: Rational.mul(x, y, round=mode), A * B)
        expect('div-m', lambda: Rational.div(x, y, round=mode), A / B if B else None)
        expect('muldiv-m', lambda: Rational.muldiv(x, y, z, round=mode), A * B / C if C else None)
    for name, f, want in (('lt', lambda: x < y, A < B), ('le', lambda: x <= y, A <= B), ('eq', lambda: x == y, A == B),
                          ('ne', lambda: x != y, A != B), ('ge', lambda: x >= y, A >= B), ('gt', lambda: x > y, A > B)):
        res.evals += 1
        got = outcome(f)
        if got != ('ok', want):
            res.fail(name, 'rational|%s|value' % name, '%r: %s gives %r' % (case, name, got))
    res.evals += 1
    got = outcome(lambda: Rational.min([x, y, z]))
    if got[0] != 'ok' or Fraction(got[1]) != min(A, B, C):
        res.fail('min', 'rational|min|value', '%r' % (got,))
    res.evals += 1
    if not isinstance(Rational(k), Rational) or Rational(k) != k:
        res.fail('ctor', 'rational|ctor|value', 'Rational(%d)' % k)
    res.nontrivial = min(A, B, C) < 0 or any(v.denominator > 1 for v in (A, B, C))
    res.tag('rational')
    return res


def shrink_candidates(case):
    for key in ('a', 'b', 'c', 'k', 'p'):
        v = case.get(key)
        if isinstance(v, int):
            for v2 in (0, 1, -1, v // 2, v // 10, -v if v < 0 else None, v - 1 if v > 0 else v + 1):
                if v2 is not None and v2 != v and abs(v2) <= abs(v) and not (key == 'p' and v2 < 0):
                    c = dict(case)
                    c[key] = v2
                    yield c
        elif isinstance(v, list):
            n, m = v
            for n2, m2 in ((0, 1), (1, 1), (n // 2, m), (n, max(1, m // 2)), (n // 10, m), (n, max(1, m // 10))):
                if [n2, m2] != v:
                    c = dict(case)
                    c[key] = [n2, m2]
                    yield c


def valid_case(case):
    return True
