"""C17 - option precedence holds, and statutory rules cannot be reconfigured

case = {'kind': 'layers' | 'immune', 'case': election case with 'options' (constructor layer) and 'file_options' ([droop ...] tokens)}
"""
import re

from hypothesis import strategies as st

from .. import gen, model, drive
from ..gen import D
from ..run import Result
from ..drive import exc_sig
from . import common

from droop.common import UsageError

ID = 'C17'
LEVEL = 'exploration'
N = {'quick': 24000, 'thorough': 600000}
RULE = ('(layers) every rule with a value or "absent" drawn for each option name in the constructor layer and the ballot-file layer (valid values, '
        'differently-typed-but-equal values); reference precedence model forced > caller > file > default; (immune) the eight statutory rules '
        'with arbitrary (also invalid) arithmetic/precision/guard/display/omega/quota/batch options from either source versus no options; '
        'non-trivial = two layers disagree on an option the rule reads (layers), the perturbation names another arithmetic or precision (immune)')
TECHNIQUE = 'property-based testing: reference precedence model for the four option layers; metamorphic immunity of statutory rules under option perturbation'
LEVEL_TEXT = 'generated layer assignments compared with a transcribed precedence/default table; generated perturbations of statutory rules compared with the unperturbed count'
LEVEL_NOTE = 'the forced/default/declared tables are transcribed from the rules\' options() and the arithmetic initialize() methods and are part of the trusted base'
GUARDS = {'all': {'layers-disagree': 0.1, 'immune-arith-or-precision': 0.1}}

NAMES = ('arithmetic', 'precision', 'guard', 'display', 'omega', 'integer_quota', 'defeat_batch', 'dump', 'zzz')

FORCED = {
    'scotland': dict(arithmetic='fixed', precision=5, display=5),
    'mpls': dict(arithmetic='fixed', precision=4, display=4),
    'wigm-prf': dict(arithmetic='fixed', precision=4, display=4),
    'wigm-prf-batch': dict(arithmetic='fixed', precision=4, display=4),
    'cfer': dict(arithmetic='fixed', precision=5, display=5),
    'cfer-batch': dict(arithmetic='fixed', precision=5, display=5),
    'meek-prf': dict(arithmetic='fixed', precision=9, display=9, omega=6),
    'qpq': dict(arithmetic='guarded', precision=9, guard=9, display=9),
}


def norm(v):
    if isinstance(v, str) and re.match(r'\d+$', v):
        return int(v)
    return v


def parse_file(tokens):
    "the documented reading of [droop name=value ...] tokens"
    out = {}
    for t in tokens or []:
        if '=' not in t:
            if t in ('fixed', 'integer', 'rational', 'guarded'):
                out['arithmetic'] = t
            elif t in model.ALL_RULES:
                out['rule'] = t
            elif t in ('report', 'dump', 'json'):
                out[t] = True
            continue
        k, v = t.split('=')[:2]
        if v.lower() in ('false', 'no'):
            out[k] = False
        elif v.lower() in ('true', 'yes'):
            out[k] = True
        else:
            out[k] = norm(v)
    return out


def reference(rule, cmd, fil):
    "-> (effective, forced, default, declared) per the documented precedence"
    cmd = {k: norm(v) for k, v in cmd.items()}
    forced = dict(FORCED.get(rule, {}))

    def sup(name, dflt=None):
        if name in forced:
            return forced[name]
        if name in cmd:
            return cmd[name]
        if name in fil:
            return fil[name]
        return dflt
    default = {}
    declared = {'arithmetic', 'display'}
    if rule in FORCED:
        default.update(forced)
        declared |= set(forced)
    else:
        default['arithmetic'] = 'guarded'
        a = sup('arithmetic', 'guarded')
        if rule == 'wigm':
            default['integer_quota'] = False
            default['defeat_batch'] = 'none'
            declared |= {'integer_quota', 'defeat_batch'}
            if a == 'guarded':
                default['precision'] = 18
                default['guard'] = sup('precision', 18) // 2
                declared |= {'precision', 'guard'}
            elif a == 'fixed':
                default['precision'] = 9
                declared |= {'precision'}
        else:
            default['defeat_batch'] = 'safe'
            declared |= {'defeat_batch', 'omega'}
            if a == 'guarded':
                default['precision'] = 18
                p = sup('precision', 18)
                default['guard'] = p // 2
                default['omega'] = p // 2
                declared |= {'precision', 'guard'}
            elif a == 'fixed':
                default['precision'] = 9
                default['omega'] = sup('precision', 9) * 2 // 3
                declared |= {'precision'}
            else:
                default['omega'] = 10
        if a == 'integer':
            forced['precision'] = 0
            default['precision'] = 0
            declared |= {'precision'}
        if a == 'rational':
            default['display'] = 12
        else:
            default['display'] = sup('precision', default.get('precision'))
    eff = {}
    for name in set(default) | set(cmd) | set(fil) | set(forced):
        eff[name] = forced.get(name, cmd.get(name, fil.get(name, default.get(name))))
    return eff, forced, default, declared


def valid_value(d, rule, name, p):
    if name == 'arithmetic':
        if rule == 'wigm':
            return d.choice(['fixed', 'guarded', 'rational', 'integer'])
        return d.choice(['fixed', 'guarded', 'rational'])
    if name == 'precision':
        return p
    if name == 'guard':
        return d.int((p + 1) // 2, p + 2)
    if name == 'display':
        return d.int(0, 14)
    if name == 'omega':
        return d.int(0, max(0, p // 2))
    if name == 'integer_quota':
        return d.p(50)
    if name == 'defeat_batch':
        return d.choice(['none', 'zero'] if rule == 'wigm' else ['none', 'safe'])
    if name == 'dump':
        return True
    return d.choice([1, 'x', True])


def file_token(name, v, d):
    if name == 'arithmetic' and d.p(40):
        return str(v)            # a bare arithmetic name means arithmetic=name
    if name == 'dump' and v is True and d.p(50):
        return 'dump'
    if isinstance(v, bool):
        return '%s=%s' % (name, d.choice(['true', 'yes', 'True', 'YES'] if v else ['false', 'no', 'False', 'NO']))
    return '%s=%s' % (name, v)


ANY = {
    'arithmetic': ['rational', 'fixed', 'guarded', 'integer', 'bogus'],
    'precision': [0, 1, 2, 7, 30, 'abc', '3'],
    'guard': [0, 1, 20, 'x'],
    'display': [0, 2, 99, 'wide'],
    'omega': [0, 1, 12, 'tiny'],
    'integer_quota': [True, False, 'maybe'],
    'defeat_batch': ['zero', 'none', 'safe', 'bogus'],
    'dump': [True],
    'zzz': [1],
}


@st.composite
def cases(draw, tier):
    d = D(draw)
    if d.p(55):
        rule = d.choice(list(model.ALL_RULES))
        case = draw(gen.election_cases(tier='quick', rules=(rule,), default_options=True))
        p = d.int(4, 12)
        cmd, fil = {}, []
        for name in NAMES:
            for layer in ('cmd', 'file'):
                if d.p(35):
                    v = valid_value(d, rule, name, p)
                    if layer == 'cmd':
                        cmd[name] = str(v) if isinstance(v, int) and not isinstance(v, bool) and d.p(30) else v
                    else:
                        fil.append(file_token(name, v, d))
        t = d.int(0, 9)
        if t <= 1:
            # the rule is named only in the ballot file
            fil.insert(d.int(0, len(fil)), rule if d.p(50) else 'rule=%s' % rule)
            case['rule_in_file'] = True
        elif t == 2:
            # the file names another rule: the caller's wins
            other = d.choice([r for r in model.ALL_RULES if r != rule])
            fil.insert(d.int(0, len(fil)), other if d.p(50) else 'rule=%s' % other)
        case['options'] = cmd
        case['file_options'] = fil or None
        if len(fil) >= 2 and d.p(40):
            case['droop_split'] = d.int(1, len(fil) - 1)      # the file layer spread over two [droop ...] groups
        return dict(kind='layers', case=case)
    rule = d.choice(list(model.STATUTORY))
    case = draw(gen.election_cases(tier='quick', rules=(rule,), default_options=True))
    cmd, fil = {}, []
    for name in NAMES:
        for layer in ('cmd', 'file'):
            if d.p(30):
                v = d.choice(ANY[name])
                if layer == 'cmd':
                    cmd[name] = v
                else:
                    fil.append(file_token(name, v, d))
    case['options'] = cmd
    case['file_options'] = fil or None
    if len(fil) >= 2 and d.p(40):
        case['droop_split'] = d.int(1, len(fil) - 1)
    return dict(kind='immune', case=case)


def strategy(tier):
    return cases(tier)


HDR_OPT = re.compile(r'^\t(Unused options|Overridden options): (.*)$', re.M)


def check(wrapper):
    if wrapper['kind'] == 'immune':
        return check_immune(wrapper)
    res = Result()
    case = wrapper['case']
    rule = case['rule']
    cmd = dict(case.get('options') or {})
    fil = parse_file(case.get('file_options'))
    eff, forced, default, declared = reference(rule, cmd, fil)
    if rule in ('meek', 'warren') and (eff.get('arithmetic') == 'integer' or (eff.get('arithmetic') == 'fixed' and eff.get('precision') == 0)):
        res.skipped = 'meek-integer-not-accepted'
        return res
    try:
        text, profile, E = drive.build(case)
    except Exception as e:      # pylint: disable=broad-except
        res.fail('construct', 'construct|%s|%s' % (rule, exc_sig(e)), 'valid option layers rejected: %r (cmd=%r file=%r)' % (e, cmd, case.get('file_options')))
        return res
    base = rule
    rec = E.options.record()
    fil_norule = {k: v for k, v in fil.items() if k != 'rule'}
    for name in sorted(set(eff) - {'rule'}):
        got = E.options.getopt(name)
        if got != eff[name]:
            res.fail('effective', 'effective|%s|%s' % (name, base), '%s: effective %r, precedence model says %r (forced=%r cmd=%r file=%r default=%r)' %
                     (name, got, eff[name], forced.get(name), cmd.get(name), fil.get(name), default.get(name)))
        if rec['options'].get(name) != eff[name]:
            res.fail('record-effective', 'record-effective|%s|%s' % (name, base), '%s: record says %r, model %r' % (name, rec['options'].get(name), eff[name]))
    want_cmd = {k: norm(v) for k, v in cmd.items()}
    if not case.get('rule_in_file'):
        want_cmd['rule'] = rule
    if E.options.getopt('rule') != rule or E.rule.__class__.__module__.split('.')[-1].replace('_', '-') not in (rule, rule.replace('-batch', ''), 'meek' if rule == 'warren' else rule):
        res.fail('effective', 'effective|rule|' + base, 'rule %r requested (in file: %r), election uses %r / %s' %
                 (rule, bool(case.get('rule_in_file')), E.options.getopt('rule'), E.rule.__class__.__module__))
    if rec['cmd'] != want_cmd:
        res.fail('record-layer', 'record-layer|cmd|' + base, 'record cmd %r, supplied %r' % (rec['cmd'], want_cmd))
    if rec['file_options'] != fil:
        res.fail('record-layer', 'record-layer|file|' + base, 'record file_options %r, file says %r' % (rec['file_options'], fil))
    if rec['force'] != forced:
        res.fail('record-layer', 'record-layer|force|' + base, 'record force %r, model %r' % (rec['force'], forced))
    for k, v in default.items():
        if rec['default'].get(k) != v:
            res.fail('record-layer', 'record-layer|default|' + base, 'default %s: record %r, model %r' % (k, rec['default'].get(k), v))
    supplied = (set(cmd) | set(fil)) - {'rule', 'path'}
    want_unused = sorted(supplied - declared)
    sup = dict(fil)
    sup.update({k: norm(v) for k, v in cmd.items()})
    want_over = sorted(k for k, v in forced.items() if k in sup and sup[k] != v)
    o = drive.run(case, renders=True)
    if o.arith is not None:
        # the count must actually run with the effective values, not only record them
        ar = o.arith
        used = dict(arithmetic=ar.name if ar.name != 'integer' or eff['arithmetic'] == 'integer' else 'fixed')
        want = dict(arithmetic=eff['arithmetic'] if not (eff['arithmetic'] == 'fixed' and eff.get('precision') == 0) else 'integer')
        if ar.cls != 'Rational':
            used['precision'] = ar.precision
            want['precision'] = eff.get('precision')
        if ar.cls == 'Guarded':
            used['guard'] = ar.guard
            want['guard'] = eff.get('guard')
        if eff.get('display') is not None and ar.cls != 'Fixed':
            used['display'] = ar.display
            want['display'] = eff['display'] if ar.cls == 'Rational' else min(eff['display'], ar.precision + ar.guard)
        elif eff.get('display') is not None:
            used['display'] = ar.display
            d = eff['display']
            want['display'] = d if 0 <= d <= ar.precision else ar.precision
        if used != want:
            res.fail('used', 'used|' + base, 'the count runs with %r, the effective options are %r' % (used, want))
    if o.ok and o.stage == 'done' and o.exc is None:
        hdr = dict(HDR_OPT.findall(o.report.split('\tSeats:')[0]))
        got_unused = sorted(hdr.get('Unused options', '').split(', ')) if 'Unused options' in hdr else []
        got_over = sorted(hdr.get('Overridden options', '').split(', ')) if 'Overridden options' in hdr else []
        if got_unused != want_unused:
            res.fail('unused', 'unused|' + base, 'report lists unused %r, model %r (declared %r)' % (got_unused, want_unused, sorted(declared)))
        if got_over != want_over:
            res.fail('overridden', 'overridden|' + base, 'report lists overridden %r, model %r' % (got_over, want_over))
        ro = o.record['options']
        if ro['options'].get('arithmetic') != eff['arithmetic']:
            res.fail('record-effective', 'record-effective|arithmetic|' + base, 'record arithmetic')
    elif o.exc is not None:
        res.skipped = 'count-raises:%s' % type(o.exc).__name__
    disagree = any(k in cmd and k in fil and norm(cmd[k]) != fil[k] and k in declared for k in NAMES) or \
        any(k in forced and k in sup and sup[k] != forced[k] for k in NAMES)
    res.tag('layers', 'rule:' + rule)
    if disagree:
        res.tag('layers-disagree')
        res.nontrivial = True
    return res


HDR_LINE = re.compile(r'^\t(?:Unused options|Overridden options): .*\n', re.M)


def strip_header(report):
    return HDR_LINE.sub('', report)


def check_immune(wrapper):
    res = Result()
    case = wrapper['case']
    rule = case['rule']
    base_case = dict(case, options={}, file_options=None)
    ob = drive.run(base_case, renders=True)
    if not ob.ok or ob.exc is not None:
        res.skipped = 'baseline-fails'
        return res
    rb, infob = ob.report, (ob.record['arithmetic_name'], ob.record['arithmetic_info'], ob.record['quota'])
    from ..exact import frac
    qb = frac(ob.record['quota'])
    ab = ob.actions
    o = drive.run(case, renders=True)
    base = rule
    if o.exc is not None or not o.ok:
        res.fail('immune', 'immune|raises|%s|%s' % (base, exc_sig(o.exc) if o.exc else 'budget'),
                 'options %r / %r make the statutory count fail: %r' % (case['options'], case.get('file_options'), o.exc))
        return res
    if o.actions != ab:
        k = next((i for i, (x, y) in enumerate(zip(o.actions, ab)) if x != y), None)
        res.fail('immune', 'immune|actions|' + base, 'options %r / %r change the count at action %s' % (case['options'], case.get('file_options'), k))
    elif frac(o.record['quota']) != qb or (o.record['arithmetic_name'], o.record['arithmetic_info']) != infob[:2]:
        res.fail('immune', 'immune|header|' + base, 'options change quota/arithmetic: %r' % ((o.record['arithmetic_name'], o.record['arithmetic_info']),))
    elif strip_header(o.report) != strip_header(rb):
        la, lb = strip_header(o.report).split('\n'), strip_header(rb).split('\n')
        k = next((i for i, (x, y) in enumerate(zip(la, lb)) if x != y), None)
        res.fail('immune', 'immune|report|' + base, 'report differs at line %s: %r vs %r' % (k, la[k] if k is not None else None, lb[k] if k is not None else None))
    elif o.dump != ob.dump:
        res.fail('immune', 'immune|dump|' + base, 'dump differs')
    cmd = case.get('options') or {}
    fil = parse_file(case.get('file_options'))
    res.tag('immune', 'rule:' + rule)
    if any(k in cmd or k in fil for k in ('arithmetic', 'precision')):
        res.tag('immune-arith-or-precision')
        res.nontrivial = True
    return res


def shrink_candidates(wrapper):
    from ..shrink import election_candidates
    case = wrapper['case']
    fo = case.get('file_options') or []
    for i in range(len(fo)):
        yield dict(wrapper, case=dict(case, file_options=(fo[:i] + fo[i + 1:]) or None))
    for k in list(case.get('options') or {}):
        o2 = dict(case['options'])
        del o2[k]
        yield dict(wrapper, case=dict(case, options=o2))
    for c in election_candidates(case):
        if c.get('options') == case.get('options') and c.get('file_options') == case.get('file_options'):
            yield dict(wrapper, case=c)


def valid_case(wrapper):
    return model.valid(wrapper['case'])
