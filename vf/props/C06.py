"""C06 - Gregory transfers: tallies equal ballot values; values only shrink, rounded down

A shadow model of every ballot line (position, value) is driven by snapshots taken
at every recorded action (harness wrapper around Election.logAction).
"""
from fractions import Fraction

from hypothesis import strategies as st

from .. import gen, model, drive
from ..gen import D
from ..run import Result
from . import common

ID = 'C06'
LEVEL = 'exploration'
N = {'quick': 32000, 'thorough': 800000}
RULE = ('generated strict-ranking elections under wigm (all arithmetics), wigm-prf(-batch), cfer(-batch), scotland, mpls, with multipliers > 1 '
        'and long rankings so that the same ballots pass through several surplus transfers (3 % narrow-surplus chains where values truncate to zero); the set of ballot lines must not change; non-trivial = some ballot line is re-weighted '
        '>= 2 times and at least one re-weighting is inexact (rounded down); distinct = distinct case JSON')
TECHNIQUE = 'property-based testing: per-ballot shadow model (position, value) replayed against snapshots at every action; exact floor formula in Fractions'
LEVEL_TEXT = 'every ballot line of every generated count is followed through all recorded actions and compared with the exact formula'
LEVEL_NOTE = ('"stands with the first candidate neither elected-and-transferred nor defeated" is keyed on a logged transfer from that candidate '
              '(epilogue elections/defeats and the Minneapolis final-round retention keep their ballots); a ballot may skip only non-hopeful candidates')
GUARDS = {'all': {'reweighted>=2': 0.04}}


@st.composite
def cases(draw, tier):
    d = D(draw)
    if d.p(3):
        return gen.narrow_chain_case(d)
    if d.p(2):
        return gen.many_candidates_case(d)      # candidate ids beyond 256
    case = draw(gen.election_cases(tier=tier, rules=model.GREGORY, chains=True, min_cand=3))
    # multipliers > 1 are always present: the weight must be truncated before it is multiplied
    if all(m == 1 for m, _ in case['ballots']):
        b = d.choice(case['ballots'])
        b[0] = d.int(2, 7)
    return case


def strategy(tier):
    return cases(tier)


def check(case):
    res = Result()
    rule = case['rule']
    o = drive.run(case, snap=True)
    if common.failed_run(res, case, o, construct_is_violation=False):
        if not (o.exc is not None and o.stage == 'count'):
            return res
        res.skipped = 'count-raises:%s' % type(o.exc).__name__
    base = common.base_sig(case, o)
    ar = o.arith
    ballots = drive.ballots_of(o)
    acts = common.nonlog(o)
    fused = rule in ('scotland', 'cfer', 'cfer-batch')      # one truncation of old*surplus/tally
    fraction_first = rule == 'mpls'                          # 167.20: trunc(trunc(surplus/tally) * old)
    transferred = set()       # candidates from whom a transfer has been logged
    prev = None               # (action, snapshot)
    nrew = [0] * len(ballots)
    inexact_any = False

    def cur_cand(bi, snap):
        idx = snap[bi][0]
        r = ballots[bi][1]
        return r[idx] if idx < len(r) else None

    for i, a in acts:
        snap = o.snaps.get(i)
        if snap is None:
            continue
        cs = a['cstate']
        if len(snap) != len(ballots) or (prev is not None and len(prev[1]) != len(snap)):
            res.fail('ballot-set', 'ballot-set|' + base, 'the election holds %d ballot lines at action %d (%s), %d when the count is over%s' %
                     (len(snap), i, a['msg'], len(ballots), '' if prev is None else ', %d at the previous action' % len(prev[1])))
            return res
        # clause 1: tallies of continuing candidates equal the values standing to their credit
        credit = {}
        for bi, (idx, w) in enumerate(snap):
            c = cur_cand(bi, snap)
            if c is not None:
                credit[c] = credit.get(c, Fraction(0)) + w * ballots[bi][0]
            if w < 0 or w > 1:
                res.fail('value-range', 'value-range|' + base, 'ballot %d has value %s at action %d (%s)' % (bi, w, i, a['msg']))
                return res
        for c, s in cs.items():
            if s['state'] == 'hopeful' or (s['state'] == 'elected' and s.get('pending')):
                if s['vote'] != credit.get(c, Fraction(0)):
                    res.fail('tally', 'tally|' + base, 'candidate %d tally %s, ballots standing to its credit are worth %s, at action %d (%s)' %
                             (c, s['vote'], credit.get(c, Fraction(0)), i, a['msg']))
                    return res
        tr = common.parse_transfer(o, a['msg']) if a['tag'] == 'transfer' else None
        if a['tag'] == 'transfer' and tr is None:
            res.fail('unparsed', 'unparsed-transfer|' + base, a['msg'])
            return res
        if prev is not None:
            pa, psnap = prev
            pcs = pa['cstate']
            src = tr[1] if tr else []
            for bi, ((idx0, w0), (idx1, w1)) in enumerate(zip(psnap, snap)):
                m, r = ballots[bi]
                if idx1 < idx0:
                    res.fail('moves-back', 'moves-back|' + base, 'ballot %d index %d -> %d at action %d' % (bi, idx0, idx1, i))
                    return res
                c0 = r[idx0] if idx0 < len(r) else None
                if idx1 != idx0:
                    # clause 2: a ballot moves only in a transfer from the candidate it stood with, past non-hopeful candidates
                    if c0 not in src:
                        res.fail('moves-unprompted', 'moves-unprompted|' + base,
                                 'ballot %d leaves candidate %s at action %d (%s) which transfers from %s' % (bi, c0, i, a['msg'], src))
                        return res
                    for j in range(idx0 + 1, min(idx1, len(r))):
                        if cs[r[j]]['state'] == 'hopeful':
                            res.fail('skips-hopeful', 'skips-hopeful|' + base, 'ballot %d skips hopeful candidate %d at action %d (%s)' % (bi, r[j], i, a['msg']))
                            return res
                    if idx1 < len(r) and cs[r[idx1]]['state'] != 'hopeful':
                        res.fail('lands-on-non-hopeful', 'lands-on-non-hopeful|' + base,
                                 'ballot %d lands on %s candidate %d at action %d (%s)' % (bi, cs[r[idx1]]['state'], r[idx1], i, a['msg']))
                        return res
                elif c0 is not None and c0 in src:
                    res.fail('left-behind', 'left-behind|' + base, 'ballot %d stays with candidate %d whose votes are transferred at action %d (%s)' % (bi, c0, i, a['msg']))
                    return res
                # clause 3: value changes only in a surplus transfer of the candidate the ballot stood with
                if tr and tr[0] == 'surplus' and c0 == src[0]:
                    tally = pcs[c0]['vote']
                    surplus = tally - pa['quota']
                    exact = w0 * surplus / tally
                    if ar.is_exact:
                        want = exact
                    elif fused:
                        want = ar.floor(exact)
                    elif fraction_first:
                        want = ar.floor(ar.floor(surplus / tally) * w0)
                    else:
                        want = ar.floor(ar.floor(w0 * surplus) / tally)
                    if w1 != want:
                        res.fail('transfer-value', 'transfer-value|' + base,
                                 'ballot %d value %s -> %s, prescribed %s (surplus %s, tally %s) at action %d (%s)' % (bi, w0, w1, want, surplus, tally, i, a['msg']))
                        return res
                    if w1 > exact or w1 > w0:
                        res.fail('rounded-up', 'rounded-up|' + base, 'ballot %d value %s exceeds old*surplus/tally = %s' % (bi, w1, exact))
                        return res
                    nrew[bi] += 1
                    if w1 != exact:
                        inexact_any = True
                elif w1 != w0:
                    res.fail('value-changes', 'value-changes|' + base, 'ballot %d value %s -> %s outside a surplus transfer of its candidate, at action %d (%s)' %
                             (bi, w0, w1, i, a['msg']))
                    return res
        # clause 4
        if tr:
            kind, src, _ = tr
            for c in src:
                if kind == 'surplus' and cs[c]['vote'] != a['quota']:
                    res.fail('keeps-quota', 'keeps-quota|' + base, 'candidate %d keeps %s after its surplus transfer, quota %s' % (c, cs[c]['vote'], a['quota']))
                if kind == 'defeated' and cs[c]['vote'] != 0:
                    res.fail('excluded-nonzero', 'excluded-nonzero|' + base, 'excluded candidate %d keeps %s after its transfer' % (c, cs[c]['vote']))
                transferred.add(c)
        # clause 2b: no ballot stands with a candidate from whom a transfer has been logged
        for bi in range(len(ballots)):
            c = cur_cand(bi, snap)
            if c in transferred:
                res.fail('stands-with-transferred', 'stands-with-transferred|' + base, 'ballot %d stands with candidate %d after its transfer (action %d)' % (bi, c, i))
                return res
        prev = (a, snap)
    res.tag('rule:' + rule)
    if max(nrew or [0]) >= 2:
        res.tag('reweighted>=2')
        if inexact_any:
            res.nontrivial = True
    if max(nrew or [0]) >= 3:
        res.tag('reweighted>=3')
    return res


# ---- thorough tier: exhaustive small scope (enumeration inside the same harness and oracle)
EXTRA_EXHAUSTIVE = {'quick': False, 'thorough': False}     # the small scope is complete; the generated part is a sample


def extra_chunks(tier, seed):
    from .. import smallscope
    return smallscope.chunks(model.GREGORY) if tier == 'thorough' else []


def extra_cases(tier, seed, chunk):
    from .. import smallscope
    return smallscope.cases(chunk, decorate=None)
