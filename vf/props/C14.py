"""C14 - printed numbers are the stored values, correctly rounded

value cases: {'kind': 'value', 'cls': fixed|guarded|rational, 'p', 'g', 'display', 'raw' | 'q': [num, den]}
count cases: {'kind': 'count', 'case': election case, 'display2': other display setting}
Oracle: an independent reference printer (exact.ref_print) computed from the exact value.
"""
import json
import re
from fractions import Fraction

from hypothesis import strategies as st

from .. import gen, model, drive
from ..exact import ref_print, frac
from ..run import Result
from ..gen import D
from . import common

from droop.options import Options
from droop.values.fixed import Fixed
from droop.values.guarded import Guarded
from droop.values.rational import Rational

ID = 'C14'
LEVEL = 'exploration'
N = {'quick': 60000, 'thorough': 1500000}
RULE = ('values (all signs, zero, carries, huge) x Fixed/Guarded/Rational x precision/guard/display, and complete counts whose '
        'JSON, text-report and dump figures (candidate lines, per-method totals, header quota) are compared with the reference printer, 35 % of guarded counts with guard digits on display; non-trivial = negative value, or a carry across the decimal '
        'point, or display digits != precision (values); a count with a fractional transfer value or Meek iteration (counts)')
TECHNIQUE = 'property-based testing against a reference printer (floor(x*10^d+1/2) from the exact value) applied to str() and to parsed JSON / report / dump figures; metamorphic display change on counts'
LEVEL_TEXT = 'generated values and counts compared with an independently written printer; sampling, no proof'
LEVEL_NOTE = ('trusts fractions.Fraction and json; for d = 0 only the denoted value is pinned (droop prints "5.0"), the layout of a '
              'zero-digit numeral is not part of the property')


@st.composite
def cases(draw, tier):
    d = D(draw)
    if d.p(25):
        case = draw(gen.election_cases(tier='quick', equal_for_meek=True))
        o = case['options']
        if case['rule'] in ('wigm', 'meek', 'warren') and o.get('arithmetic', 'guarded') == 'guarded' and d.p(35):
            # guard digits on display: figures below the comparison tolerance (a residual of rounding loss only, a keep
            # factor one guard unit under 1) are visible in every rendering and must be printed as stored
            pp = o.get('precision', 18)
            gg = o.get('guard', pp // 2 if case['rule'] != 'wigm' else None)
            if isinstance(pp, int) and isinstance(gg, int) and gg >= 1:
                case['options'] = dict(o, display=pp + d.int(1, gg))
        return dict(kind='count', case=case, display2=d.int(0, 14))
    cls = d.choice(['fixed', 'fixed', 'guarded', 'guarded', 'rational'])
    p = d.int(0, 8) if d.p(70) else d.int(0, 20)
    g = d.int(0, 6) if d.p(70) else d.int(0, 12)
    disp = None if d.p(20) else d.int(0, p + g + 3)
    if cls == 'fixed' and d.p(10):
        disp = -d.int(1, 3)
    out = dict(kind='value', cls=cls, p=p, g=g, display=disp)
    S = 10 ** (p + (g if cls == 'guarded' else 0))
    if cls == 'rational':
        t = d.int(0, 3)
        if t == 0:
            out['q'] = [d.int(-50, 50), 1]
        elif t == 1:
            dd = disp if disp is not None else 12
            out['q'] = [d.choice([1, -1]) * (2 * d.int(0, 10 ** 3) + 1), 2 * 10 ** dd]   # exactly on a rounding boundary
        else:
            out['q'] = [d.int(-10 ** 12, 10 ** 12), d.int(1, 10 ** 9)]
    else:
        t = d.int(0, 5)
        if t == 0:
            out['raw'] = d.choice([0, 1, -1, S, -S, S - 1, -S + 1, S // 2, -(S // 2), S // 2 - 1, -(S // 2) - 1])
        elif t == 1:
            # carries: .9996 style
            out['raw'] = d.choice([1, -1]) * (d.int(0, 3) * S + S - d.int(1, 60))
        elif t <= 4:
            out['raw'] = d.int(-5 * S, 5 * S)
        else:
            out['raw'] = d.int(-10 ** 40, 10 ** 40)
    return out


def strategy(tier):
    return cases(tier)


ZERO_D = re.compile(r'^(-?)(\d+)(?:\.(0*))?$')


def expected_text(x, d, cls, p):
    "reference text for d >= 1 (guarded beyond precision: underscore after the p-th fractional digit)"
    text, r = ref_print(x, d)
    if cls == 'guarded' and d > p:
        ip, fp = text.split('.')
        text = '%s.%s_%s' % (ip, fp[:p], fp[p:])
    return text, r


def check_text(res, got, x, d, cls, p, sigbase, what):
    "compare one printed figure with the reference printer"
    if cls == 'integer':
        if got != str(int(x)):
            res.fail('print', sigbase + '|integer', '%s: printed %r for %s' % (what, got, x))
        return
    if d == 0:
        _, r = ref_print(x, 0)
        m = ZERO_D.match(got)
        val = None
        if m:
            val = int(m.group(2)) * (-1 if m.group(1) else 1)
        if val != r:
            res.fail('print', sigbase + ('|negative' if x < 0 else '|d0'), '%s: printed %r, value %s rounds to %d' % (what, got, x, r))
        return
    if cls == 'guarded' and d > p and p == 0:
        # zero precision digits before the underscore: the reading "I._G" vs droop's "I.0_G" is layout of an
        # empty digit group; pin the denoted value only: integer part, then guard digits after the underscore
        text, r = ref_print(x, d)
        ip, fp = text.split('.')
        if got not in ('%s._%s' % (ip, fp), '%s.0_%s' % (ip, fp)):
            res.fail('print', sigbase + ('|negative' if x < 0 else '|p0guard'), '%s: printed %r for %s' % (what, got, text))
        return
    text, _ = expected_text(x, d, cls, p)
    if got != text:
        res.fail('print', sigbase + ('|negative' if x < 0 else '|nonneg'),
                 '%s: printed %r, exact value %s rounds half-up to %r' % (what, got, x, text))


def init_class(case):
    cls, p, g, disp = case['cls'], case['p'], case['g'], case['display']
    o = {}
    if disp is not None:
        o['display'] = disp
    if cls == 'fixed':
        o.update(arithmetic='fixed' if p else 'integer')
        if p:
            o['precision'] = p
        Fixed.initialize(Options(o))
        d = p if (disp is None or disp < 0 or disp > p) else disp
        return Fixed, d
    if cls == 'guarded':
        o.update(arithmetic='guarded', precision=p, guard=g)
        Guarded.initialize(Options(o))
        d = p if disp is None else min(disp, p + g)
        return Guarded, d
    o.update(arithmetic='rational')
    Rational.initialize(Options(o))
    return Rational, (12 if disp is None else disp)


def check(case):
    if case['kind'] == 'count':
        return check_count(case)
    res = Result()
    cls, p, g = case['cls'], case['p'], case['g']
    V, d = init_class(case)
    if cls == 'rational':
        x = Fraction(*case['q'])
        v = V(x)
        before = (v.numerator, v.denominator)
    else:
        S = 10 ** (p + (g if cls == 'guarded' else 0))
        x = Fraction(case['raw'], S)
        v = V(case['raw'], True)
        before = v._value
    try:
        got = str(v)
    except Exception as e:      # pylint: disable=broad-except
        res.fail('print-raises', '%s|print-raises|%s' % (cls, type(e).__name__), repr(e))
        return res
    after = (v.numerator, v.denominator) if cls == 'rational' else v._value
    if after != before:
        res.fail('mutated', '%s|mutated' % cls, 'printing changed the value %r -> %r' % (before, after))
    kind = 'integer' if (cls == 'fixed' and p == 0) else cls
    check_text(res, got, x, d, kind, p, 'value|' + cls, 'str() p=%s g=%s display=%s' % (p, g, case['display']))
    _, r = ref_print(x, d)
    _, rfloor = ref_print(x - Fraction(1, 2 * 10 ** d), d)
    carry = r // 10 ** d != (x.numerator // x.denominator) if d else False
    if x < 0 or carry or d != p:
        res.nontrivial = True
    res.tag('value:' + cls)
    if x < 0:
        res.tag('negative')
    if carry:
        res.tag('carry')
    if cls == 'guarded' and d > p:
        res.tag('guard-digits-shown')
    return res


FIGURE_CLAUSES = ('dump-figure', 'report-totals', 'report-status', 'report-header')


def walk_values(a):
    "all (path, exact value) figures of a decoded action"
    for k in ('quota', 'votes', 'nt_votes', 'residual', 'surplus'):
        if k in a:
            yield (k,), a[k]
    for cid, s in a['cstate'].items():
        for k in ('vote', 'kf', 'quotient'):
            if k in s:
                yield ('cstate', str(cid), k), s[k]


def check_count(wrapper):
    res = Result()
    case = wrapper['case']
    o = drive.run(case, renders=True)
    if common.failed_run(res, case, o, construct_is_violation=False):
        if o.exc is not None and o.stage in ('count', 'render'):
            res.skipped = 'count-raises:%s' % type(o.exc).__name__
        return res
    if o.exc is not None:
        res.skipped = 'render-raises:%s' % type(o.exc).__name__
        return res
    ar = o.arith
    cls = 'integer' if ar.name == 'integer' else ar.cls.lower()
    d = ar.display
    base = 'count|%s|%s' % (case['rule'], common.arith_family(o))
    try:
        js = json.loads(o.json)
    except ValueError as e:
        res.fail('json-invalid', base + '|json-invalid', repr(e))
        return res
    jacts = js['actions']
    if len(jacts) != len(o.actions):
        res.fail('json-actions', base + '|json-len', '%d vs %d' % (len(jacts), len(o.actions)))
        return res
    neg = False
    for a, ja in zip(o.actions, jacts):
        if a['tag'] == 'log':
            continue
        for path, x in walk_values(a):
            j = ja
            for k in path:
                j = j[k]
            if x < 0:
                neg = True
            if not isinstance(j, str):
                res.fail('json-figure', base + '|json-type', '%s is %r' % ('/'.join(path), j))
                continue
            check_text(res, j, x, d, cls, ar.precision, base + '|json', 'json %s at %s' % ('/'.join(path), a['tag']))
            if res.violations:
                break
        if res.violations:
            break
    check_text(res, js['quota'], frac(o.record['quota']), d, cls, ar.precision, base + '|json', 'json quota')
    # every figure of the text report (candidate lines and the per-method totals fragment) and of the dump is the printed form
    # of the recorded value: the parsers are C18's, the reference printer is this module's; only figure clauses are taken over
    # (layout, status labels and entry order are C18's business)
    if not res.violations:
        from . import C18
        sub = Result()
        C18.check_dump(sub, 'x', ar, o.record, o.actions, o.dump, o.record['method'])
        C18.check_report(sub, 'x', ar, o.record, o.actions, o.report, o.record['method'], o, case)
        for v in sub.violations:
            if v.clause in FIGURE_CLAUSES and '|keys|' not in v.sig and (v.clause != 'report-header' or '|quota|' in v.sig):
                res.fail('render-figure', '%s|%s' % (base, v.sig.split('|x')[0]), v.detail)
                break
    # a different display setting changes no value used in the count
    c2 = dict(case)
    c2['options'] = dict(case.get('options') or {})
    c2['options']['display'] = wrapper['display2']
    o2 = drive.run(c2)
    if o2.ok and o2.stage == 'done':
        strip = lambda acts: [{k: v for k, v in a.items() if k != 'msg'} for a in acts]     # messages quote printed figures
        if strip(o2.actions) != strip(o.actions):
            # statutory rules force display; others must be unaffected
            res.fail('display-changes-count', base + '|display-changes-count',
                     'display=%s changes the decoded record' % wrapper['display2'])
    st = common.stats(o)
    if st['surplus_transfers'] or o.iterations >= 2:
        res.nontrivial = True
    res.tag('count')
    if cls == 'guarded' and d > ar.precision:
        res.tag('count-guard-digits-shown')
    if neg:
        res.tag('count-with-negative-figure')
    return res


def shrink_candidates(case):
    from ..shrink import election_candidates
    if case['kind'] == 'count':
        for c in election_candidates(case['case']):
            yield dict(case, case=c)
        return
    for key in ('raw', 'p', 'g', 'display'):
        v = case.get(key)
        if isinstance(v, int):
            for v2 in (0, 1, -1, v // 2, v // 10, v - 1 if v > 0 else v + 1):
                if v2 != v and abs(v2) <= abs(v) and not (key in ('p', 'g') and v2 < 0):
                    c = dict(case)
                    c[key] = v2
                    yield c
    if 'q' in case:
        n, m = case['q']
        for n2, m2 in ((n // 2, m), (n, max(1, m // 2)), (n // 10, m), (n, max(1, m // 10)), (1, m), (-1, m)):
            if [n2, m2] != case['q']:
                yield dict(case, q=[n2, m2])


def valid_case(case):
    if case['kind'] == 'count':
        return model.valid(case['case'])
    return True
