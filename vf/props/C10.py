"""C10 - the record depends on the ballots cast, not on how the file presents them"""
import json
import re

from hypothesis import strategies as st

from .. import gen, model, drive
from ..gen import D
from ..run import Result
from . import common

ID = 'C10'
LEVEL = 'exploration'
N = {'quick': 28000, 'thorough': 500000}
RULE = ('one generated election (all rules x accepted options; multipliers >= 2 forced) in two presentations: canonical, and lines permuted + '
        'multipliers split/merged + random white space (LF, CRLF, bare CR) / comments / nicknames / option order; 3 % narrow-surplus chains; oracle: json(), report() and dump() byte-identical; '
        'non-trivial = the presentations differ in line order and grouping and the count has a fractional transfer value or Meek iteration')
TECHNIQUE = 'property-based testing: metamorphic relation (re-presented ballot file => byte-identical record, report and dump)'
LEVEL_TEXT = 'generated pairs of presentations of one election compared byte for byte on all three renderings'
LEVEL_NOTE = 'nickname variant: the nick fields of cdict legitimately differ and are removed before comparison; nothing else is masked except the figures of known finding F15'
GUARDS = {'all': {'regrouped+fractional': 0.1}}


@st.composite
def cases(draw, tier):
    d = D(draw)
    if d.p(3):
        case = gen.narrow_chain_case(d)     # zero-valued papers next to valued ones: sensitive to line order and splitting
    else:
        case = draw(gen.election_cases(tier=tier, equal_for_meek=True, chains=d.p(50)))
        if case['rule'] == 'wigm' and case['options'].get('arithmetic', 'guarded') in ('guarded', 'rational') and d.p(35):
            # truncating arithmetic is where per-line and per-ballot rounding can differ between presentations
            case['options'] = dict(case['options'], arithmetic='fixed', precision=d.int(1, 6))
            case['options'].pop('guard', None)
    case.pop('nicks', None)         # the baseline uses numbers; the variant may use nicknames
    if all(m == 1 for m, _ in case['ballots']):
        d.choice(case['ballots'])[0] = d.int(2, 9)
    variant = dict(ballots=gen.split_merge(d, case['ballots']),
                   layout=[d.int(0, 29) for _ in range(d.int(1, 24))],
                   nicks=None)
    if d.p(30):
        variant['nicks'] = ['k%s%d' % (d.choice('abcxyz'), i) for i in range(1, case['ncand'] + 1)]
    return dict(case=case, variant=variant)


def strategy(tier):
    return cases(tier)


def shrink_candidates(wrapper):
    from ..shrink import election_candidates
    case, var = wrapper['case'], wrapper['variant']
    # shrink the variant first
    for i in range(len(var['layout'])):
        v2 = dict(var, layout=var['layout'][:i] + var['layout'][i + 1:])
        if v2['layout']:
            yield dict(case=case, variant=v2)
    if var.get('nicks'):
        yield dict(case=case, variant=dict(var, nicks=None))
    for c in election_candidates(case):
        # regroup trivially: the variant presents the shrunk ballots reversed and with the first multiplier split
        b = [[m, r] for m, r in reversed(c['ballots'])]
        if b and b[0][0] > 1:
            b = [[1, b[0][1]], [b[0][0] - 1, b[0][1]]] + b[1:]
        nicks = var.get('nicks')
        if nicks and len(nicks) != c['ncand']:
            nicks = ['k%d' % i for i in range(1, c['ncand'] + 1)]
        yield dict(case=c, variant=dict(ballots=b, layout=var['layout'], nicks=nicks))


def valid_case(wrapper):
    c = wrapper['case']
    v = wrapper['variant']
    if not model.valid(c):
        return False
    c2 = dict(c, ballots=v['ballots'])
    if not model.valid(c2):
        return False
    canon = lambda bl: sorted((repr(r), m) for r, m in _group(bl).items())
    return canon(c['ballots']) == canon(v['ballots'])


def _group(bl):
    g = {}
    for m, r in bl:
        g[repr(r)] = g.get(repr(r), 0) + m
    return g


STATS = re.compile(r'(maxDiff|minDiff): *\d+')


def strip_nick(js):
    d = json.loads(js)
    for c in d.get('cdict', {}).values():
        c.pop('nick', None)
    return json.dumps(d, sort_keys=True, indent=2)


def check(wrapper):
    res = Result()
    case, var = wrapper['case'], wrapper['variant']
    rule = case['rule']
    oa = drive.run(case, renders=True, decode=True)
    if common.failed_run(res, case, oa, construct_is_violation=False):
        if oa.exc is not None and oa.stage == 'count':
            res.skipped = 'count-raises:%s' % type(oa.exc).__name__
        return res
    if oa.exc is not None:
        res.skipped = 'render-raises'
        return res
    a = (oa.json, oa.report, oa.dump)
    cb = dict(case, ballots=var['ballots'], nicks=var.get('nicks'))
    text = gen.render_layout(cb, var['layout'])
    ob = drive.run(cb, renders=True, text=text, decode=False)
    base = common.base_sig(case, oa)
    if ob.budget_hit:
        res.skipped = 'budget-on-variant'
        return res
    if ob.exc is not None:
        res.fail('variant-fails', 'variant-fails|%s|%s' % (base, drive.exc_sig(ob.exc)),
                 'the re-presented file fails at %s: %r' % (ob.stage, ob.exc))
        return res
    b = (ob.json, ob.report, ob.dump)
    if var.get('nicks'):
        a = (strip_nick(a[0]), a[1], a[2])
        b = (strip_nick(b[0]), b[1], b[2])
    for name, x, y in zip(('json', 'report', 'dump'), a, b):
        if x != y:
            if STATS.sub('#', x) == STATS.sub('#', y):
                res.fail('stats-only', 'stats-only|%s|%s' % (name, base), 'only the maxDiff/minDiff statistics differ between the presentations (%s)' % name)
            else:
                la, lb = x.split('\n'), y.split('\n')
                k = next((i for i, (p, q) in enumerate(zip(la, lb)) if p != q), min(len(la), len(lb)))
                res.fail('differs', 'differs|%s|%s' % (name, base), '%s differs at line %d: %r vs %r' %
                         (name, k, la[k] if k < len(la) else None, lb[k] if k < len(lb) else None))
    st_ = common.stats(oa)
    regrouped = len(var['ballots']) != len(case['ballots']) or [m for m, _ in var['ballots']] != [m for m, _ in case['ballots']]
    reordered = [r for _, r in var['ballots']] != [r for _, r in case['ballots']]
    res.tag('rule:' + rule)
    if regrouped and reordered and (st_['surplus_transfers'] or oa.iterations >= 2 or rule in model.MEEK):
        res.tag('regrouped+fractional')
        res.nontrivial = True
    if var.get('nicks'):
        res.tag('nicknames')
    return res
