"""C18 - the record is a faithful audit trail and all renderings agree with it

Three independent readers (JSON, tab-separated dump, text report) are written against the
documented layouts and cross-checked with the record, figure by figure, through the
reference printer of C14 (never droop's own str())."""
import json
import re
from fractions import Fraction

from hypothesis import strategies as st

from .. import gen, model, drive
from ..exact import frac, ref_print
from ..gen import D
from ..run import Result
from . import common
from .C14 import expected_text

ID = 'C18'
LEVEL = 'exploration'
N = {'quick': 24000, 'thorough': 600000}
RULE = ('generated elections (all rules x accepted options), candidate names N1.. (unambiguous in every rendering); audit-trail invariants on '
        'the record, and report / dump / JSON parsed and compared with the record on every status, tally, quota and total; the record header as Election.record() offers it before any rendering; every rendering produced twice; non-trivial = >= 1 '
        'election and >= 1 exclusion and >= 1 transfer; distinct = distinct case JSON')
TECHNIQUE = 'property-based testing: audit-trail invariants plus three independently written parsers (report, dump, JSON) cross-checked with the record'
LEVEL_TEXT = 'every action and every rendered line of generated counts is compared with the record through an independent printer'
LEVEL_NOTE = ('"status change" for the audit clauses is the state (hopeful/elected/defeated); the silent finalisation of pending candidates in the '
              'epilogue is not an election or exclusion; QPQ restart is modelled, not exempted')
GUARDS = {'all': {'elect+defeat+transfer': 0.2}}


@st.composite
def cases(draw, tier):
    d = D(draw)
    if d.p(3):
        # tallies a few thousandths apart and a candidate excluded with a sliver of a vote, at a coarse guarded precision:
        # figures that are "zero" by the arithmetic's comparison and not zero in the record
        case = gen.near_tie_case(d)
        case['options'] = {'arithmetic': 'guarded', 'precision': d.int(1, 3), 'guard': d.int(1, 4)}
        if d.p(30):
            case['options']['display'] = case['options']['precision'] + d.int(0, 4)
        return case
    case = draw(gen.election_cases(tier=tier, equal_for_meek=True))
    o = case['options']
    if case['rule'] in ('wigm', 'meek', 'warren') and o.get('arithmetic', 'guarded') == 'guarded' and d.p(12):
        # guard digits on display: figures below the comparison tolerance become visible in every rendering
        p = o.get('precision', 18)
        g = o.get('guard', p // 2 if case['rule'] != 'wigm' else None)
        if isinstance(p, int) and isinstance(g, int) and g >= 1:
            case['options'] = dict(o, display=p + d.int(1, g))
    return case


def strategy(tier):
    return cases(tier)


def fig(ar, x):
    "reference text of a figure for this election's arithmetic"
    if ar.name == 'integer':
        return str(int(x))
    d = ar.display
    if d == 0:
        return None         # layout of zero-digit numerals is not pinned (C14): compare values instead
    if ar.cls == 'Guarded' and d > ar.precision and ar.precision == 0:
        return None
    return expected_text(x, d, ar.cls.lower(), ar.precision)[0]


def same_fig(ar, text, x):
    want = fig(ar, x)
    if want is not None:
        return text == want
    try:
        t = text.replace('_', '')
        if t.endswith('.'):
            t += '0'
        v = Fraction(t)
    except (ValueError, ZeroDivisionError):
        return False
    d = ar.display
    return v == Fraction(ref_print(x, d)[1], 10 ** d) or (ar.precision == 0 and ar.cls == 'Guarded')


def check(case):
    res = Result()
    rule = case['rule']
    o = drive.run(case, renders=2)
    if common.failed_run(res, case, o, construct_is_violation=False):
        if o.exc is not None and o.stage == 'count':
            res.skipped = 'count-raises:%s' % type(o.exc).__name__
        if o.exc is not None and o.stage == 'attributes':
            res.fail('end-vs-election', 'end-vs-election|attributes|' + common.base_sig(case, o),
                     'the election object does not report its winners/losers/withdrawn after the count: %r' % (o.exc,))
        return res
    base = common.base_sig(case, o)
    if o.exc is not None:
        res.fail('render-raises', 'render-raises|%s|%s' % (base, drive.exc_sig(o.exc)), repr(o.exc))
        return res
    ar = o.arith
    rec = o.record
    acts = o.actions
    nl = common.nonlog(o)
    # ---------------- clause 0: the record itself (read before any rendering) carries what the renderings show in their headers
    missing = sorted(k for k in ('title', 'rule_name', 'method', 'arithmetic_name', 'arithmetic_info', 'seats', 'nballots', 'quota',
                                 'cids', 'ecids', 'cdict', 'options') if k not in (o.header_keys or ()))
    if missing:
        res.fail('record-header', 'record-header|missing|' + base, 'Election.record() right after the count lacks %s (the renderings show them)' % missing)
    # ---------------- clause 0b: rendering is repeatable and leaves the recorded actions alone
    if o.again is not None:
        for k in ('report', 'dump', 'json'):
            if o.again[k] != getattr(o, k):
                la, lb = getattr(o, k).split('\n'), o.again[k].split('\n')
                j = next((j for j, (x, y) in enumerate(zip(la, lb)) if x != y), min(len(la), len(lb)))
                res.fail('rerender', 'rerender|%s|%s' % (k, base), 'the second %s() of the same election differs from the first at line %d: %r vs %r' %
                         (k, j + 1, lb[j][:120] if j < len(lb) else None, la[j][:120] if j < len(la) else None))
        if not o.again['actions_untouched']:
            res.fail('rerender', 'rerender|record|' + base, 'producing the renderings changed the recorded actions')
    method = rec['method']
    wd = set(case.get('withdrawn') or [])
    # ---------------- clause 1
    if not nl:
        res.fail('empty', 'empty|' + base, 'no actions')
        return res
    first = nl[0][1]
    if rule == 'mpls':
        ok = first['tag'] == 'round' and len(nl) > 1 and nl[1][1]['tag'] == 'count'
    else:
        ok = first['tag'] == 'begin'
    if not ok:
        res.fail('begin', 'begin|' + base, 'first action is %s' % first['tag'])
    for c, s in first['cstate'].items():
        if (s['state'] == 'withdrawn') != (c in wd) or (c not in wd and s['state'] != 'hopeful'):
            res.fail('begin-state', 'begin-state|' + base, 'candidate %d is %s at the start' % (c, s['state']))
    if nl[-1][1]['tag'] != 'end':
        res.fail('end', 'end|' + base, 'last action is %s' % nl[-1][1]['tag'])
    else:
        end = nl[-1][1]['cstate']
        got = (sorted(c for c, s in end.items() if s['state'] == 'elected'), sorted(c for c, s in end.items() if s['state'] == 'defeated'),
               sorted(c for c, s in end.items() if s['state'] == 'withdrawn'))
        if got != (o.elected, o.defeated, o.withdrawn):
            res.fail('end-vs-election', 'end-vs-election|' + base, 'end action shows %r, election object reports %r' % (got, (o.elected, o.defeated, o.withdrawn)))
    # ---------------- clause 2
    prev = None
    defeat_in_round = False
    restart = False
    for i, a in nl:
        cur = {c: s['state'] for c, s in a['cstate'].items()}
        curp = {c: (s['state'], bool(s.get('pending'))) for c, s in a['cstate'].items()}
        if prev is not None:
            pst, pstp = prev
            if restart:
                pst = {c: ('hopeful' if v == 'elected' else v) for c, v in pst.items()}
                pstp = {c: (('hopeful', False) if v[0] == 'elected' else v) for c, v in pstp.items()}
            changed = sorted(c for c in cur if cur[c] != pst[c])
            if a['tag'] in ('elect', 'defeat'):
                c = common.named_candidate(o, a['msg'])
                want = 'elected' if a['tag'] == 'elect' else 'defeated'
                if c is None:
                    res.fail('unnamed', 'unnamed|' + base, a['msg'])
                elif cur[c] != want or curp[c] == pstp[c]:
                    res.fail('listed-no-change', 'listed-no-change|%s|%s' % (a['tag'], base),
                             '"%s": candidate %d goes %s -> %s' % (a['msg'], c, pstp[c], curp[c]))
                if [x for x in changed if x != c]:
                    res.fail('unlisted-change', 'unlisted-change|' + base, '"%s": status of %s changes too' % (a['msg'], [x for x in changed if x != c]))
            elif changed:
                res.fail('unlisted-change', 'unlisted-change|' + base, 'action %d (%s %s): status of %s changes without an elect/defeat action' %
                         (i, a['tag'], a['msg'], changed))
        restart = False
        if a['tag'] == 'round':
            restart = defeat_in_round and rule == 'qpq'
            defeat_in_round = False
        if a['tag'] == 'defeat':
            defeat_in_round = True
        prev = (cur, curp)
        if res.violations:
            break
    # ---------------- clause 3: JSON
    try:
        js = json.loads(o.json)
    except ValueError as e:
        res.fail('json-invalid', 'json-invalid|' + base, repr(e))
        js = None
    if js is not None:
        check_json(res, base, ar, rec, acts, js)
    # ---------------- clause 4: dump
    check_dump(res, base, ar, rec, acts, o.dump, method)
    # ---------------- clause 5: report
    check_report(res, base, ar, rec, acts, o.report, method, o, case)
    st_ = common.stats(o)
    if st_['elects'] and st_['defeats'] and st_['transfers']:
        res.nontrivial = True
        res.tag('elect+defeat+transfer')
    res.tag('rule:' + rule)
    return res


def check_json(res, base, ar, rec, acts, js):
    ja = js.get('actions')
    if not isinstance(ja, list) or len(ja) != len(acts):
        res.fail('json-actions', 'json-actions|' + base, 'JSON has %s actions, record %d' % (len(ja) if isinstance(ja, list) else ja, len(acts)))
        return
    for i, (a, j) in enumerate(zip(acts, ja)):
        if (j.get('tag'), j.get('msg'), j.get('round')) != (a['tag'], a['msg'], a['round']):
            res.fail('json-action', 'json-action|' + base, 'action %d: JSON %r vs record %r' % (i, (j.get('tag'), j.get('msg')), (a['tag'], a['msg'])))
            return
        if a['tag'] == 'log':
            continue
        for k in ('quota', 'votes', 'nt_votes', 'residual', 'surplus'):
            if k in a and not same_fig(ar, j.get(k), a[k]):
                res.fail('json-figure', 'json-figure|' + base, 'action %d %s: JSON %r, record %s' % (i, k, j.get(k), a[k]))
                return
        for c, s in a['cstate'].items():
            js_ = j['cstate'].get(str(c))
            if js_ is None or js_.get('state') != s['state'] or js_.get('code') != s['code'] or js_.get('pending') != s.get('pending'):
                res.fail('json-state', 'json-state|' + base, 'action %d candidate %d: JSON %r vs record %r' % (i, c, js_, s))
                return
            for k in ('vote', 'kf', 'quotient'):
                if k in s and not same_fig(ar, js_.get(k), s[k]):
                    res.fail('json-figure', 'json-figure|' + base, 'action %d candidate %d %s: JSON %r, record %s' % (i, c, k, js_.get(k), s[k]))
                    return
    if js.get('seats') != rec['seats'] or js.get('nballots') != rec['nballots']:
        res.fail('json-header', 'json-header|' + base, 'seats/nballots differ')


def check_dump(res, base, ar, rec, acts, dump, method):
    lines = dump.split('\n')
    if lines[-1] != '':
        res.fail('dump-layout', 'dump-layout|' + base, 'dump does not end with a newline')
        return
    lines = lines[:-1]
    header = lines[0].split('\t')
    ecids = rec['ecids']
    per = {'wigm': ['name', 'state', 'vote'], 'meek': ['name', 'state', 'vote', 'kf'], 'qpq': ['name', 'state', 'quotient']}[method]
    glob = {'wigm': ['Non-Transferable'], 'meek': ['Votes', 'Surplus', 'Residual'], 'qpq': []}[method]
    want_header = ['R', 'Action', 'Quota'] + glob + ['%s.%s' % (c, f) for c in ecids for f in per]
    if header != want_header:
        res.fail('dump-header', 'dump-header|' + base, 'header %r, expected %r' % (header, want_header))
        return
    if len(lines) - 1 != len(acts):
        res.fail('dump-rows', 'dump-rows|' + base, '%d rows for %d actions' % (len(lines) - 1, len(acts)))
        return
    names = {c: rec['cdict'][c]['name'] for c in ecids}
    gkey = {'Non-Transferable': 'nt_votes', 'Votes': 'votes', 'Surplus': 'surplus', 'Residual': 'residual'}
    for i, (a, line) in enumerate(zip(acts, lines[1:])):
        row = line.split('\t')
        if len(row) != len(header):
            kind = 'short-row' if a['tag'] in ('round', 'log', 'iterate') and len(row) == 3 else 'bad-row'
            res.fail('dump-columns', 'dump-columns|short-row' if kind == 'short-row' else 'dump-columns|bad-row|' + base, 'row %d (%s) has %d fields, header has %d' % (i, a['tag'], len(row), len(header)))
            if kind == 'bad-row':
                return
            if row != [str(a['round']), a['tag'], a['msg']]:
                res.fail('dump-row', 'dump-row|' + base, 'row %d: %r' % (i, row))
                return
            continue
        rnd = 'X' if a['tag'] == 'end' else str(a['round'])
        if row[0] != rnd or row[1] != a['tag']:
            res.fail('dump-row', 'dump-row|' + base, 'row %d: %r vs (%s, %s)' % (i, row[:2], rnd, a['tag']))
            return
        if a['tag'] in ('round', 'log', 'iterate'):
            continue
        if not same_fig(ar, row[2], a['quota']):
            res.fail('dump-figure', 'dump-figure|' + base, 'row %d quota %r, record %s' % (i, row[2], a['quota']))
            return
        col = 3
        for g in glob:
            if not same_fig(ar, row[col], a[gkey[g]]):
                res.fail('dump-figure', 'dump-figure|' + base, 'row %d %s %r, record %s' % (i, g, row[col], a[gkey[g]]))
                return
            col += 1
        for c in ecids:
            s = a['cstate'][c]
            if row[col] != names[c] or row[col + 1] != s['code']:
                res.fail('dump-state', 'dump-state|' + base, 'row %d candidate %d: %r vs (%s, %s)' % (i, c, row[col:col + 2], names[c], s['code']))
                return
            for k, f in enumerate(per[2:]):
                if not same_fig(ar, row[col + 2 + k], s[f]):
                    res.fail('dump-figure', 'dump-figure|' + base, 'row %d candidate %d %s: %r, record %s' % (i, c, f, row[col + 2 + k], s[f]))
                    return
            col += len(per)


CAND_LINE = re.compile(r'^\t(Elected|Pending|Hopeful|Defeated): +(.*) \(([^()]*)\)$')
KV_LINE = re.compile(r'^\t([A-Za-z ]+): (\S+)$')


def check_report(res, base, ar, rec, acts, report, method, o, case):
    lines = report.split('\n')
    # header
    hdr = {}
    pos = 0
    while pos < len(lines) and not lines[pos].startswith(('Action: ', 'Round ')) and not lines[pos].startswith('\tAdd '):
        m = re.match(r'^\t([A-Za-z ]+): (.*)$', lines[pos])
        if m:
            hdr[m.group(1)] = m.group(2)
        pos += 1
    qname = o.E.rule.quota_name
    try:
        if int(hdr['Seats']) != rec['seats'] or int(hdr['Ballots']) != rec['nballots']:
            res.fail('report-header', 'report-header|' + base, 'Seats/Ballots %r' % hdr)
        if not same_fig(ar, hdr[qname], frac(rec['quota'])):
            res.fail('report-header', 'report-header|quota|' + base, '%s: %r, record %s' % (qname, hdr.get(qname), frac(rec['quota'])))
    except (KeyError, ValueError):
        res.fail('report-header', 'report-header|' + base, 'header lines missing: %r' % sorted(hdr))
        return
    names = {c: rec['cdict'][c]['name'] for c in rec['cids']}
    n = Fraction(rec['nballots'])
    head = lines[:pos]
    src, com = case.get('source'), case.get('comment') if case.get('source') is not None else None
    if (src is not None) != any(x.startswith('Source: ') for x in head) or (src is not None and 'Source: %s' % src not in head):
        res.fail('report-header', 'report-header|source|' + base, 'profile source %r, report header %r' % (src, [x for x in head if x.startswith('Source')]))
    if (com is not None) != any(x.startswith('{') for x in head) or (com is not None and '{%s}' % com not in head):
        res.fail('report-header', 'report-header|comment|' + base, 'profile comment %r not shown as {comment} in the report header' % (com,))
    if rec.get('profile_source') != src or rec.get('profile_comment') != com:
        res.fail('record-header', 'record-header|source|' + base, 'record source/comment %r/%r, file says %r/%r' %
                 (rec.get('profile_source'), rec.get('profile_comment'), src, com))
    # body: one block per action, in order
    blocks = []
    cur = None
    for line in lines[pos:]:
        if line.startswith('Action: '):
            cur = dict(kind='action', msg=line[len('Action: '):], cands={}, kv={}, extra=[])
            blocks.append(cur)
        elif line.startswith('Round ') and line.endswith(':'):
            cur = None
            blocks.append(dict(kind='round', n=line[6:-1]))
        elif line.startswith('\t'):
            if cur is None:
                blocks.append(dict(kind='log', msg=line[1:]))
                continue
            m = CAND_LINE.match(line)
            if m and not cur['kv']:
                for nm in m.group(2).split(', ') if m.group(1) == 'Defeated' and ', ' in m.group(2) else [m.group(2)]:
                    cur['cands'][nm] = (m.group(1), m.group(3))
                continue
            m = KV_LINE.match(line)
            if m:
                cur['kv'][m.group(1)] = m.group(2)
                if m.group(1) == 'Surplus' or (method == 'qpq' and m.group(1) == qname):
                    cur = None if method != 'qpq' else None
                continue
            blocks.append(dict(kind='log', msg=line[1:]))
        elif line == '':
            continue
        else:
            blocks.append(dict(kind='junk', msg=line))
    # the arithmetic statistics block (guarded) sits between header and actions: drop leading non-action entries that are not record logs
    logs = [a['msg'] for a in acts if a['tag'] == 'log']
    bi = 0
    seq = []
    for b in blocks:
        if b['kind'] == 'log' and b['msg'] not in logs:
            continue
        seq.append(b)
    if len(seq) != len(acts):
        res.fail('report-blocks', 'report-blocks|' + base, 'report shows %d entries, record has %d actions' % (len(seq), len(acts)))
        return
    for i, (a, b) in enumerate(zip(acts, seq)):
        if a['tag'] == 'log':
            if b['kind'] != 'log' or b['msg'] != a['msg']:
                res.fail('report-entry', 'report-entry|' + base, 'entry %d: %r vs log %r' % (i, b, a['msg']))
                return
            continue
        if a['tag'] == 'round':
            if b['kind'] != 'round' or b['n'] != str(a['round']):
                res.fail('report-entry', 'report-entry|' + base, 'entry %d: %r vs round %d' % (i, b, a['round']))
                return
            continue
        if b['kind'] != 'action' or b['msg'] != a['msg']:
            res.fail('report-entry', 'report-entry|' + base, 'entry %d: %r vs action %r' % (i, b.get('msg'), a['msg']))
            return
        cs = a['cstate']
        key = 'quotient' if method == 'qpq' else 'vote'
        shows_cands = a['tag'] in ('begin', 'count', 'elect', 'defeat', 'transfer', 'end')
        if shows_cands:
            want = {}
            for c, s in cs.items():
                if s['state'] == 'withdrawn':
                    continue
                label = {'hopeful': 'Hopeful', 'defeated': 'Defeated'}.get(s['state']) or \
                    ('Pending' if s.get('pending') and method != 'qpq' else 'Elected')
                want[names[c]] = (label, s[key])
            if set(want) != set(b['cands']):
                res.fail('report-candidates', 'report-candidates|' + base, 'action %d (%s): report lists %s, record has %s' %
                         (i, a['msg'], sorted(b['cands']), sorted(want)))
                return
            for nm, (label, v) in want.items():
                gl, gv = b['cands'][nm]
                if gl != label or not same_fig(ar, gv, v):
                    res.fail('report-status', 'report-status|' + base, 'action %d (%s): %s shown as %s (%s), record: %s (%s)' %
                             (i, a['msg'], nm, gl, gv, label, v))
                    return
        elif b['cands']:
            res.fail('report-candidates', 'report-candidates|' + base, 'action %d (%s) lists candidates' % (i, a['msg']))
            return
        kv = b['kv']
        if method == 'meek':
            want_kv = {qname: a['quota'], 'Votes': a['votes'], 'Residual': a['residual'], 'Total': a['votes'] + a['residual'], 'Surplus': a['surplus']}
        elif method == 'qpq':
            want_kv = {qname: a['quota']}
        else:
            el = [s['vote'] for s in cs.values() if s['state'] == 'elected' and not s.get('pending')]
            pe = [s['vote'] for s in cs.values() if s['state'] == 'elected' and s.get('pending')]
            ho = [s['vote'] for s in cs.values() if s['state'] == 'hopeful']
            de = [s['vote'] for s in cs.values() if s['state'] == 'defeated']
            total = sum(el + pe + ho + de, Fraction(0)) + a['nt_votes']
            want_kv = {'Elected votes': sum(el, Fraction(0)), 'Hopeful votes': sum(ho, Fraction(0)),
                       'Nontransferable votes': a['nt_votes'], 'Residual': n - total, 'Total': n, 'Surplus': a['surplus']}
            if sum(pe, Fraction(0)):
                want_kv['Pending votes'] = sum(pe, Fraction(0))
            if sum(de, Fraction(0)):
                want_kv['Defeated votes'] = sum(de, Fraction(0))
        if set(kv) != set(want_kv):
            res.fail('report-totals', 'report-totals|keys|' + base, 'action %d (%s): lines %s, expected %s' % (i, a['msg'], sorted(kv), sorted(want_kv)))
            return
        for k, v in want_kv.items():
            if not same_fig(ar, kv[k], v):
                res.fail('report-totals', 'report-totals|%s|%s' % (k.split()[0], base), 'action %d (%s): %s shown as %s, record gives %s' % (i, a['msg'], k, kv[k], v))
                return
        if method != 'qpq' and 'Total' in kv:
            # the Total line equals the number of ballots
            if not same_fig(ar, kv['Total'], n) and method == 'wigm':
                res.fail('report-total-ballots', 'report-total-ballots|' + base, 'Total %s, Ballots %s' % (kv['Total'], n))
                return


# ---- thorough tier: exhaustive small scope (enumeration inside the same harness and oracle)
EXTRA_EXHAUSTIVE = {'quick': False, 'thorough': False}     # the small scope is complete; the generated part is a sample


def extra_chunks(tier, seed):
    from .. import smallscope
    return smallscope.chunks(model.ALL_RULES) if tier == 'thorough' else []


def extra_cases(tier, seed, chunk):
    from .. import smallscope
    return smallscope.cases(chunk, decorate=None)
