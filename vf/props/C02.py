"""C02 - votes are conserved at every step: none created, none lost beyond rounding"""
from fractions import Fraction

from hypothesis import strategies as st

from .. import gen, model, drive
from ..gen import D
from ..run import Result
from . import common

ID = 'C02'
LEVEL = 'exploration'
N = {'quick': 40000, 'thorough': 1000000}
RULE = ('generated elections (all rules x accepted options; equal ranks for meek/warren only; 3 % narrow-surplus chains in electorates of thousands), invariant checked at every recorded '
        'action; non-trivial = a surplus transfer with an inexact transfer value (Gregory), >= 2 iterations (Meek), an election '
        'followed by an exclusion/restart (QPQ); distinct = distinct case JSON')
TECHNIQUE = 'property-based testing: exact-rational accounting invariant over every action of generated counts (ballot snapshots for QPQ)'
LEVEL_TEXT = 'invariant over the whole recorded history of ~4*10^4 (quick) / 10^6 (thorough) generated counts, all arithmetic in Fractions'
LEVEL_NOTE = ('the allowed shortfall is the one the property states (2 ulp per ballot per surplus transfer so far); QPQ sum tolerance '
              'n*(seats+1)^2*(elected+1) units of 10^-18 derived from one truncation of 1/q per ballot')
GUARDS = {'all': {'gregory-k>=2': 0.03, 'meek-iter>=2': 0.03, 'qpq-elect-then-restart': 0.002}}


@st.composite
def cases(draw, tier):
    d = D(draw)
    if d.p(3):
        return gen.narrow_chain_case(d)     # thousands of ballots, values truncated to zero: the allowance is per ballot, not per line
    return draw(gen.election_cases(tier=tier, equal_for_meek=True))


def strategy(tier):
    return cases(tier)


def check(case):
    res = Result()
    rule = case['rule']
    o = drive.run(case, snap=(rule == 'qpq'))
    if common.failed_run(res, case, o, construct_is_violation=False):
        if o.exc is not None and o.stage == 'count':
            res.skipped = 'count-raises:%s' % type(o.exc).__name__
            # the history recorded up to the failure is still checked below
        else:
            return res
    base = common.base_sig(case, o)
    ar = o.arith
    n = Fraction(o.nballots)
    acts = common.nonlog(o)
    if rule in model.GREGORY:
        k = 0
        inexact = False
        for i, a in acts:
            if a['tag'] == 'transfer' and 'urplus' in a['msg']:
                k += 1
            votes = [s['vote'] for s in a['cstate'].values() if 'vote' in s]
            T = sum(votes, Fraction(0)) + a['nt_votes']
            if min(votes + [a['nt_votes']]) < 0:
                res.fail('negative', 'negative|' + base, 'negative tally or non-transferable total at action %d (%s)' % (i, a['msg']))
                break
            if T > n:
                res.fail('created', 'created|' + base, 'total %s exceeds %s ballots at action %d (%s)' % (T, n, i, a['msg']))
                break
            if ar.is_exact:
                if T != n:
                    res.fail('lost-exact', 'lost-exact|' + base, 'total %s != %s under rational arithmetic at action %d (%s)' % (T, n, i, a['msg']))
                    break
            elif n - T > 2 * ar.ulp * n * k:
                res.fail('lost', 'lost|' + base, 'shortfall %s exceeds 2*ulp*n*k = %s (k=%d) at action %d (%s)' %
                         (n - T, 2 * ar.ulp * n * k, k, i, a['msg']))
                break
            if T != n:
                inexact = True
        if k >= 1 and inexact:
            res.nontrivial = True
        res.tag('gregory')
        if k >= 2:
            res.tag('gregory-k>=2')
    elif rule in model.MEEK:
        for i, a in acts:
            votes = [s['vote'] for s in a['cstate'].values() if 'vote' in s]
            if min(votes + [a['residual']]) < 0:
                res.fail('negative', 'negative|' + base, 'negative tally or residual at action %d (%s)' % (i, a['msg']))
                break
            T = sum(votes, Fraction(0)) + a['residual']
            if T > n:
                res.fail('created', 'created|' + base, 'votes+residual %s exceeds %s ballots at action %d (%s)' % (T, n, i, a['msg']))
                break
            # right after a distribution nothing is in flight: the residual is defined as what no candidate kept, so the total is
            # exact under every arithmetic (snapshots with a zeroed, not yet redistributed tally are outside the claim, see C08)
            epi = a['tag'] in ('elect', 'defeat') and common.epilogue_msg(a['msg'])
            settled = (a['tag'] in ('iterate', 'end')) if rule != 'meek-prf' else \
                (a['tag'] in ('begin', 'tie', 'end') or (a['tag'] in ('elect', 'defeat') and not epi))
            if settled and T != n:
                res.fail('lost', 'lost|' + base, 'votes+residual %s falls short of %s ballots right after a distribution, action %d (%s)' % (T, n, i, a['msg']))
                break
        res.tag('meek')
        if o.iterations >= 2 or (not ar.exact_flag and len(acts) > 4):
            res.nontrivial = True
            res.tag('meek-iter>=2')
    else:   # qpq
        ballots = drive.ballots_of(o)
        s = case['nseats']
        by_quotient = set()
        defeat_in_round = False
        pending_restart = False
        elect_then_restart = False
        for i, a in acts:
            if a['tag'] == 'round':
                pending_restart = defeat_in_round
                defeat_in_round = False
            elif pending_restart:
                if by_quotient:
                    elect_then_restart = True
                by_quotient = set()
                pending_restart = False
            if a['tag'] == 'defeat':
                defeat_in_round = True
            if a['tag'] == 'elect':
                if 'high quotient' in a['msg']:
                    by_quotient.add(common.named_candidate(o, a['msg']))
                continue
            snap = o.snaps.get(i)
            if snap is None:
                continue
            if any(w < 0 for _, w in snap):
                res.fail('negative', 'negative|' + base, 'negative ballot contribution at action %d' % i)
                break
            total = sum((w * m for (_, w), (m, _) in zip(snap, ballots)), Fraction(0))
            tol = n * (s + 1) ** 2 * (len(by_quotient) + 1) * ar.ulp
            if abs(total - len(by_quotient)) > tol:
                res.fail('qpq-sum', 'qpq-sum|' + base, 'ballots have elected %s candidates in total, %d were elected by quotient, at action %d (%s)' %
                         (float(total), len(by_quotient), i, a['msg']))
                break
        res.tag('qpq')
        if elect_then_restart:
            res.nontrivial = True
            res.tag('qpq-elect-then-restart')
    return res


# ---- thorough tier: exhaustive small scope (enumeration inside the same harness and oracle)
EXTRA_EXHAUSTIVE = {'quick': False, 'thorough': False}     # the small scope is complete; the generated part is a sample


def extra_chunks(tier, seed):
    from .. import smallscope
    return smallscope.chunks(model.ALL_RULES) if tier == 'thorough' else []


def extra_cases(tier, seed, chunk):
    from .. import smallscope
    return smallscope.cases(chunk, decorate=None)
