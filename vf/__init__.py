"""verification harness for droop (property-based testing / fuzzing).

Importing this package puts the droop tree under test on sys.path:
$DROOP_REPO if set (sensitivity runs against scratch copies), else /repo.
The stale /repo/build/lib copy is never importable through this path.
"""
import os
import sys

REPO = os.environ.get('DROOP_REPO', '/repo')
VERIF = os.path.dirname(os.path.dirname(os.path.abspath(__file__)))
DEPS = os.path.join(VERIF, '.deps')

if REPO not in sys.path:
    sys.path.insert(0, REPO)
if os.path.isdir(DEPS) and DEPS not in sys.path:
    sys.path.append(DEPS)


class HarnessError(Exception):
    "a problem of the harness itself (exit 2), never a property violation"
