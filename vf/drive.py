"""Instrumented election runner.

Nothing in droop is patched at class level: the hooks are instance attributes on
the Election object (logAction wrapper, prog counter), so elections cannot
influence each other through the harness.
"""
import os
import signal
import sys
import threading
import time
import traceback
from fractions import Fraction

from . import REPO, HarnessError
from . import model
from .exact import frac, Arith

from droop.election import Election
from droop.profile import ElectionProfile, ElectionProfileError
from droop.common import UsageError, ElectionError

_DROOP_DIR = os.path.join(os.path.realpath(REPO), 'droop')


class BudgetExceeded(BaseException):
    "rational Meek iteration budget exhausted: not explored, never a violation"


class WallClock(BaseException):
    """the per-count watchdog fired: inconclusive (Warren with huge multipliers and equal rankings needs ~10^8 iterations;
    termination inside one Meek round has no useful a-priori bound) - counted as not explored, never a violation"""


WATCHDOG_S = int(os.environ.get('VERIF_WATCHDOG', '10'))


_armed = [False]


class _Sink:
    "where the console dots of a count go"

    def write(self, s):
        return len(s)

    def flush(self):
        pass


_SINK = _Sink()


def _on_alarm(signum, frame):
    # the timer repeats (see run()): one 10^11-ballot Warren count of the thorough tier ran for 100 minutes with the
    # handler installed and no alarm pending - a single raise can get lost, so it is raised again every second until
    # the count is left
    if _armed[0]:
        raise WallClock()


class ProgressBound(Exception):
    "the deterministic round bound was exceeded: a termination violation"


MAX_BITS = 3000      # rational Meek: denominators double every iteration; beyond ~900 digits a single step takes seconds


def budget_prog(E, counter, iter_budget=12):
    """replacement for Election.prog (called once per Meek iteration when V.exact): counts iterations and enforces the
    deterministic budget for rational arithmetic - iteration count and size of the quota's denominator (never a clock)"""
    rational = E.V.name == 'rational'

    deadline = time.monotonic() + 2 * WATCHDOG_S if WATCHDOG_S > 0 else None

    def prog(msg):
        if msg == '.':
            counter[0] += 1
            if deadline is not None and counter[0] % 1024 == 0 and time.monotonic() > deadline:
                raise WallClock()       # second line of the watchdog, raised from ordinary code (inconclusive, never a violation)
            if rational and iter_budget is not None:
                if counter[0] > iter_budget or getattr(E.quota, 'denominator', 1).bit_length() > MAX_BITS:
                    raise BudgetExceeded()
    return prog


def innermost_droop_frame(exc):
    "file:function of the innermost traceback frame that lies in the droop package"
    tb = traceback.extract_tb(exc.__traceback__)
    where = None
    for fr in tb:
        fn = os.path.realpath(fr.filename)
        if fn.startswith(_DROOP_DIR):
            where = '%s:%s' % (os.path.relpath(fn, _DROOP_DIR), fr.name)
    return where or 'outside'


def exc_sig(exc):
    return '%s@%s' % (type(exc).__name__, innermost_droop_frame(exc))


class Outcome:
    __slots__ = ('case', 'text', 'profile', 'E', 'exc', 'stage', 'arith', 'actions', 'snaps',
                 'iterations', 'budget_hit', 'nballots', 'elected', 'defeated', 'withdrawn',
                 'report', 'dump', 'json', 'record', 'header_keys', 'names', 'again')

    def __init__(self):
        for s in self.__slots__:
            setattr(self, s, None)

    @property
    def ok(self):
        return self.exc is None and not self.budget_hit


def round_bound(case):
    nc = case['ncand']
    if case['rule'] == 'qpq':
        return (nc + 1) ** 2 + 2
    return 3 * nc + 3


def decode_action(A):
    d = dict(tag=A['tag'], msg=A['msg'], round=A['round'])
    if A['tag'] == 'log':
        return d
    d['quota'] = frac(A['quota'])
    d['votes'] = frac(A['votes'])
    for k in ('nt_votes', 'residual', 'surplus'):
        if k in A:
            d[k] = frac(A[k])
    cs = {}
    for cid, s in A['cstate'].items():
        e = dict(state=s['state'], code=s['code'])
        if 'vote' in s:
            e['vote'] = frac(s['vote'])
        if 'kf' in s:
            e['kf'] = frac(s['kf'])
        if 'quotient' in s:
            e['quotient'] = frac(s['quotient'])
        if 'pending' in s:
            e['pending'] = s['pending']
        cs[cid] = e
    d['cstate'] = cs
    return d


def build(case, text=None):
    "profile and election for a case; raises whatever droop raises"
    if text is None:
        text = model.render(case)
    profile = ElectionProfile(data=text)
    E = Election(profile, model.options_for_constructor(case))
    return text, profile, E


def run(case, snap=False, renders=False, iter_budget=12, text=None, bound=True, decode=True):
    """count one election; never raises for droop failures (they are in outcome.exc)

    snap:     record ballot positions/values at every non-log action
    renders:  also produce report/dump/json strings (while the arithmetic class state is ours)
    iter_budget: Meek iterations allowed under rational arithmetic (None = unlimited)
    """
    o = Outcome()
    o.case = case
    o.stage = 'profile'
    try:
        o.text = text if text is not None else model.render(case)
        o.profile = ElectionProfile(data=o.text)
        o.stage = 'construct'
        E = Election(o.profile, model.options_for_constructor(case))
    except Exception as exc:     # pylint: disable=broad-except
        o.exc = exc
        return o
    o.E = E
    o.names = {c.cid: c.name for c in E.C}      # from the election object, not from the record header
    o.arith = Arith(E.V)
    o.nballots = E.nBallots
    o.iterations = 0
    snaps = {}
    o.snaps = snaps
    rbound = round_bound(case) if bound else None
    orig_log = E.logAction
    rational = E.V.name == 'rational'

    counter = [0]
    budget = budget_prog(E, counter, iter_budget)
    console = E.prog            # droop's own progress output stays part of the count (its dots go to a sink)

    def prog(msg):
        budget(msg)
        console(msg)

    def logAction(action, msg):
        orig_log(action, msg)
        if action == 'log':
            return
        if rbound is not None and action == 'round' and E.round > rbound:
            raise ProgressBound('round %d exceeds the bound %d' % (E.round, rbound))
        if snap:
            idx = len(E.erecord['actions']) - 1
            snaps[idx] = [(b.index, frac(b.weight)) for b in E.ballots]

    E.prog = prog
    E.logAction = logAction
    o.stage = 'count'
    use_alarm = WATCHDOG_S > 0 and threading.current_thread() is threading.main_thread()
    if use_alarm:
        old_handler = signal.signal(signal.SIGALRM, _on_alarm)
        _armed[0] = True
        signal.setitimer(signal.ITIMER_REAL, WATCHDOG_S, 1.0)
    stdout, sys.stdout = sys.stdout, _SINK
    try:
        try:
            E.count()
            o.stage = 'done'
        finally:
            sys.stdout = stdout
            if use_alarm:
                _armed[0] = False
                signal.setitimer(signal.ITIMER_REAL, 0)
                signal.signal(signal.SIGALRM, old_handler)
    except BudgetExceeded:
        o.budget_hit = True
    except WallClock:
        if use_alarm:
            _armed[0] = False
            signal.setitimer(signal.ITIMER_REAL, 0)
            signal.signal(signal.SIGALRM, old_handler)
        o.budget_hit = 'wall-clock'
    except Exception as exc:     # pylint: disable=broad-except
        o.exc = exc
    o.iterations = counter[0]
    rec = E.erecord
    o.record = rec
    o.header_keys = frozenset(rec.keys())       # what Election.record() offers right after the count, before any rendering
    if decode:
        o.actions = [decode_action(A) for A in rec['actions']]
    if o.stage == 'done':
        try:
            o.elected = sorted(c.cid for c in E.elected)
            o.defeated = sorted(c.cid for c in E.defeated)
            o.withdrawn = sorted(c.cid for c in E.withdrawn)
        except Exception as exc:     # pylint: disable=broad-except
            o.exc = exc                 # the election object does not report its winners/losers/withdrawn properly
            o.stage = 'attributes'
            return o
        if renders:
            try:
                before = repr(rec['actions']) if renders == 2 else None
                o.report = E.report()
                o.dump = E.dump()
                o.json = E.json()
                if renders == 2:
                    # every rendering a second time, in another order: the answers must not depend on what was rendered before
                    j2 = E.json()
                    d2 = E.dump()
                    r2 = E.report()
                    o.again = dict(report=r2, dump=d2, json=j2, actions_untouched=repr(rec['actions']) == before)
            except Exception as exc:     # pylint: disable=broad-except
                o.exc = exc
                o.stage = 'render'
    return o


def ballots_of(o):
    "static ballot data of a counted election: [(multiplier, ranking list)] aligned with snapshots"
    return [(int(frac(b.multiplier)), list(b.ranking)) for b in o.E.ballots]
