"""Sharded property runner: Hypothesis generation in 16 processes, collect-then-shrink,
known-finding matching, evidence and the exit protocol."""
import argparse
import fnmatch
import importlib
import json
import multiprocessing
import os
import sys
import time
import traceback

from . import VERIF, HarnessError
from . import model

NPROC = int(os.environ.get('VERIF_NPROC', '16'))
MAX_SAMPLES_PER_CLASS = 1


class Violation:
    __slots__ = ('clause', 'sig', 'detail')

    def __init__(self, clause, sig, detail=''):
        self.clause = clause
        self.sig = sig          # bucket key: clause|rule|arithmetic|exception...
        self.detail = str(detail)[:600]

    def as_dict(self):
        return dict(clause=self.clause, sig=self.sig, detail=self.detail)


class Result:
    "what a property's check(case) returns"
    __slots__ = ('violations', 'nontrivial', 'classes', 'skipped', 'evals')

    def __init__(self):
        self.violations = []
        self.nontrivial = False
        self.classes = []
        self.skipped = None      # reason string: case not explored (budget), counted separately
        self.evals = 1

    def fail(self, clause, sig, detail=''):
        self.violations.append(Violation(clause, sig, detail))

    def tag(self, *classes):
        self.classes.extend(classes)

    def count(self, name, n):
        "add n to a class counter (for checks whose cases contain many evaluations)"
        if n:
            self.classes.append((name, n))


def load_prop(pid):
    return importlib.import_module('vf.props.%s' % pid)


# ---------------------------------------------------------------- known findings

def load_findings():
    path = os.path.join(VERIF, 'known_findings.json')
    if not os.path.exists(path):
        return []
    with open(path) as f:
        return json.load(f)


def match_finding(findings, pid, case, viol):
    "the open known finding that this violation is an instance of, or None"
    from . import findings as fmod
    for f in findings:
        if f.get('status') != 'known' or pid not in f['properties']:
            continue
        if not any(fnmatch.fnmatchcase(viol['sig'], pat) for pat in f['sig']):
            continue
        m = f.get('matcher')
        if m and not getattr(fmod, m)(case, viol):
            continue
        return f
    return None


# ---------------------------------------------------------------- shard worker

class Collector:
    def __init__(self):
        self.evaluations = 0
        self.cases = 0
        self.nontrivial = set()
        self.classes = {}
        self.samples = {}
        self.buckets = {}
        self.skipped = {}

    def add(self, case, res):
        self.cases += 1
        self.evaluations += res.evals
        if res.skipped:
            self.skipped[res.skipped] = self.skipped.get(res.skipped, 0) + 1
        cj = None
        if res.nontrivial:
            cj = model.canon(case)
            self.nontrivial.add(model.digest(cj))
        for c in res.classes:
            k = 1
            if isinstance(c, tuple):
                c, k = c
            self.classes[c] = self.classes.get(c, 0) + k
            if c not in self.samples:
                self.samples[c] = case
        for v in res.violations:
            if cj is None:
                cj = model.canon(case)
            b = self.buckets.get(v.sig)
            if b is None:
                self.buckets[v.sig] = dict(count=1, case=case, size=len(cj), viol=v.as_dict())
            else:
                b['count'] += 1
                if len(cj) < b['size']:
                    b.update(case=case, size=len(cj), viol=v.as_dict())

    def summary(self):
        return dict(evaluations=self.evaluations, cases=self.cases, nontrivial=self.nontrivial,
                    classes=self.classes, samples=self.samples, buckets=self.buckets,
                    skipped=self.skipped)


def guarded_check(prop, case):
    """prop.check(case); an exception that escapes the check and was raised *inside droop* (innermost frame in the package)
    is reported as a violation of the property under test - the code under test failed where the harness did not expect
    it to - while an exception raised by harness code stays a harness error (exit 2)"""
    try:
        return prop.check(case)
    except Exception as e:      # pylint: disable=broad-except
        from .drive import exc_sig
        tb = traceback.extract_tb(e.__traceback__)
        from . import REPO
        root = os.path.join(os.path.realpath(REPO), 'droop')
        if tb and os.path.realpath(tb[-1].filename).startswith(root):
            res = Result()
            res.fail('droop-raises', 'droop-raises|%s' % exc_sig(e), 'droop raised %r where the check expects it to succeed' % (e,))
            return res
        raise


def shard_worker(args):
    pid, tier, seed, shard, n = args
    try:
        import hypothesis
        from hypothesis import given, settings, HealthCheck, Phase
        prop = load_prop(pid)
        if hasattr(prop, 'run_shard'):      # stateful checks drive their own state machine
            return prop.run_shard(tier, seed, shard, n)
        col = Collector()
        strat = prop.strategy(tier)

        @hypothesis.seed(seed * 100003 + shard)
        @settings(max_examples=n, database=None, deadline=None, derandomize=False,
                  report_multiple_bugs=False, suppress_health_check=list(HealthCheck),
                  phases=[Phase.generate])
        @given(strat)
        def search(case):
            col.add(case, guarded_check(prop, case))

        search()
        return col.summary()
    except BaseException:      # pylint: disable=broad-except
        return dict(harness_error=traceback.format_exc())


def extra_worker(args):
    pid, tier, seed, chunk = args
    try:
        prop = load_prop(pid)
        col = Collector()
        for case in prop.extra_cases(tier, seed, chunk):
            col.add(case, guarded_check(prop, case))
        return col.summary()
    except BaseException:      # pylint: disable=broad-except
        return dict(harness_error=traceback.format_exc())


def merge(total, part):
    if 'harness_error' in part:
        raise HarnessError(part['harness_error'])
    total['evaluations'] += part['evaluations']
    total['cases'] += part['cases']
    total['nontrivial'] |= part['nontrivial']
    for k, v in part['classes'].items():
        total['classes'][k] = total['classes'].get(k, 0) + v
    for k, v in part['skipped'].items():
        total['skipped'][k] = total['skipped'].get(k, 0) + v
    for k, v in part['samples'].items():
        total['samples'].setdefault(k, v)
    for sig, b in part['buckets'].items():
        t = total['buckets'].get(sig)
        if t is None:
            total['buckets'][sig] = b
        else:
            t['count'] += b['count']
            if b['size'] < t['size']:
                t.update(case=b['case'], size=b['size'], viol=b['viol'])


# ---------------------------------------------------------------- replays

def replay_files(pid):
    out = []
    for sub in ('regress', 'known'):
        d = os.path.join(VERIF, 'replays', sub)
        if os.path.isdir(d):
            for fn in sorted(os.listdir(d)):
                if fn.startswith(pid + '-') and fn.endswith('.json'):
                    out.append(os.path.join(d, fn))
    return out


def run_replay(prop, path):
    with open(path) as f:
        doc = json.load(f)
    case = doc['case'] if isinstance(doc, dict) and 'case' in doc else doc
    res = prop.check(case)
    return case, res


# ---------------------------------------------------------------- main

def main(argv=None):
    ap = argparse.ArgumentParser(prog='check')
    ap.add_argument('property')
    ap.add_argument('--tier', default=os.environ.get('VERIF_TIER', 'quick'), choices=['quick', 'thorough'])
    ap.add_argument('--replay')
    ap.add_argument('--scale', type=float, default=float(os.environ.get('VERIF_SCALE', '1')),
                    help='multiply the number of generated cases (diagnostics only)')
    ap.add_argument('--no-shrink', action='store_true')
    ap.add_argument('--no-evidence', action='store_true')
    a = ap.parse_args(argv)
    pid = a.property
    try:
        seed = int(os.environ.get('VERIF_SEED', '1') or '1')
    except ValueError:
        seed = 1
    try:
        return _main(pid, a, seed)
    except HarnessError as e:
        print('HARNESS-ERROR property=%s\n%s' % (pid, e))
        return 2
    except Exception:      # pylint: disable=broad-except
        print('HARNESS-ERROR property=%s\n%s' % (pid, traceback.format_exc()))
        return 2


def _main(pid, a, seed):
    t0 = time.time()
    prop = load_prop(pid)
    findings = load_findings()
    tier = a.tier

    if a.replay:
        case, res = run_replay(prop, a.replay)
        bad = 0
        for v in res.violations:
            f = match_finding(findings, pid, case, v.as_dict())
            if f:
                print('KNOWN-FINDING: property=%s %s [%s]' % (pid, f['what'], f['id']))
            else:
                bad += 1
                print('VIOLATION property=%s replay=%s' % (pid, a.replay))
                print('  clause=%s sig=%s\n  %s' % (v.clause, v.sig, v.detail))
        if not res.violations:
            print('replay ok: property=%s holds on %s' % (pid, a.replay))
        return 1 if bad else 0

    total = dict(evaluations=0, cases=0, nontrivial=set(), classes={}, samples={}, buckets={}, skipped={})

    # 1. regression tier: committed replays bypass the library entirely
    nreplay = 0
    col = Collector()
    for path in replay_files(pid):
        case, res = run_replay(prop, path)
        res.classes = ['replay:' + os.path.basename(os.path.dirname(path))]
        col.add(case, res)
        nreplay += 1
    merge(total, col.summary())

    # 2. generated search
    n = prop.N[tier]
    nshards = getattr(prop, 'SHARDS', {}).get(tier, NPROC if tier == 'quick' else NPROC * 4)
    per = max(1, int(n * a.scale / nshards))
    jobs = [(pid, tier, seed, s, per) for s in range(nshards)]
    ctx = multiprocessing.get_context('fork')
    with ctx.Pool(NPROC) as pool:
        if per > 0 and n > 0:
            for part in pool.imap_unordered(shard_worker, jobs):
                merge(total, part)
        exhaustive = False
        if hasattr(prop, 'extra_chunks'):
            chunks = prop.extra_chunks(tier, seed)
            if chunks:
                for part in pool.imap_unordered(extra_worker, [(pid, tier, seed, c) for c in chunks]):
                    merge(total, part)
                exhaustive = bool(getattr(prop, 'EXTRA_EXHAUSTIVE', {}).get(tier))

    # 3. triage buckets
    known_hit = {}
    unknown = []
    for sig, b in sorted(total['buckets'].items()):
        f = match_finding(findings, pid, b['case'], b['viol'])
        if f:
            k = known_hit.setdefault(f['id'], dict(finding=f, count=0, sigs=[]))
            k['count'] += b['count']
            k['sigs'].append(sig)
        else:
            unknown.append((sig, b))

    # 4. shrink unknown buckets and write replays
    viol_lines = []
    from . import shrink
    os.makedirs(os.path.join(VERIF, 'replays', 'found'), exist_ok=True)
    for sig, b in unknown[:getattr(prop, 'MAX_REPORT', 12)]:
        case = b['case']
        viol = b['viol']
        if not a.no_shrink:
            try:
                case, viol = shrink.shrink(prop, case, sig, viol, findings, pid)
            except Exception:      # pylint: disable=broad-except
                pass        # a shrinker problem must never hide the violation: report the unshrunk witness
        path = os.path.join('replays', 'found', '%s-%s.json' % (pid, model.digest(sig)))
        with open(os.path.join(VERIF, path), 'w') as f:
            json.dump(dict(property=pid, sig=sig, violation=viol, count=b['count'], case=case,
                           text=_try_render(case)), f, indent=1, sort_keys=True, default=str)
        viol_lines.append((path, sig, viol, b['count']))

    # 5. guards against vacuous runs
    starved = []
    ncases = max(1, total['cases'])
    for cls, frac in getattr(prop, 'GUARDS', {}).get(tier, getattr(prop, 'GUARDS', {}).get('all', {})).items():
        got = total['classes'].get(cls, 0) / ncases
        if got < frac:
            starved.append('%s: %.4f < %.4f' % (cls, got, frac))

    wall = time.time() - t0
    # 6. evidence
    if not a.no_evidence:
        samples = []
        for cls in sorted(total['samples']):
            if len(samples) >= 8:
                break
            samples.append({'class': cls, 'case': total['samples'][cls]})
        ev = dict(
            property_id=pid, tier=tier, seed=seed, level=prop.LEVEL, wall_s=round(wall, 2),
            violations=len(unknown),
            coverage=dict(
                evaluations=total['evaluations'],
                distinct_nontrivial=len(total['nontrivial']),
                rule=prop.RULE,
                samples=samples,
                exhaustive=exhaustive,
                cases=total['cases'],
                replayed=nreplay,
                classes=dict(sorted(total['classes'].items())),
                not_explored=total['skipped'],
                known_findings_hit={k: v['count'] for k, v in known_hit.items()},
                violation_buckets=[dict(sig=s, count=c) for _, s, _, c in viol_lines],
                starved=starved,
            ),
            assumptions=list(getattr(prop, 'ASSUMPTIONS', [])),
        )
        os.makedirs(os.path.join(VERIF, 'evidence'), exist_ok=True)
        with open(os.path.join(VERIF, 'evidence', pid + '.json'), 'w') as f:
            json.dump(ev, f, indent=1, sort_keys=True, default=str)

    # 7. report
    print('%s %s seed=%d: %d cases, %d evaluations, %d distinct non-trivial, %.1fs' %
          (pid, tier, seed, total['cases'], total['evaluations'], len(total['nontrivial']), wall))
    for k in sorted(total['classes']):
        print('   class %-34s %7d  %.3f' % (k, total['classes'][k], total['classes'][k] / ncases))
    for k, v in sorted(total['skipped'].items()):
        print('   not explored (%s): %d' % (k, v))
    for k, v in sorted(known_hit.items()):
        print('KNOWN-FINDING: property=%s %s [%s; %d cases this run]' % (pid, v['finding']['what'], k, v['count']))
    for path, sig, viol, count in viol_lines:
        print('VIOLATION property=%s replay=%s' % (pid, path))
        print('   sig=%s count=%d\n   %s' % (sig, count, viol['detail']))
    if len(unknown) > len(viol_lines):
        print('   (+%d further violation buckets not shrunk)' % (len(unknown) - len(viol_lines)))
    if unknown:
        return 1
    if starved:
        print('HARNESS-ERROR property=%s generator starved: %s' % (pid, '; '.join(starved)))
        return 2
    if len(total['nontrivial']) < 2:
        print('HARNESS-ERROR property=%s fewer than 2 non-trivial cases' % pid)
        return 2
    return 0


def _try_render(case):
    try:
        if isinstance(case, dict) and 'ballots' in case and 'ncand' in case:
            return model.render(case)
    except Exception:      # pylint: disable=broad-except
        pass
    return None
