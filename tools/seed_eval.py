#!/usr/bin/env python3
"""evaluate a seeded change kept under /verif/seeded/<name>/ (patch.diff, demo.py):
confirm in a scratch copy that the suite passes with it, the demo fails with it and passes without it,
then run the quick checks against the changed copy (DROOP_REPO) and record which ones report a violation.

usage: tools/seed_eval.py seeded/<name> [--checks C01,C02,...] [--seeds 1]
"""
import argparse
import json
import os
import shutil
import subprocess
import sys
import tempfile
import time

ALL = ['C%02d' % i for i in range(1, 21)]
ap = argparse.ArgumentParser()
ap.add_argument('dir')
ap.add_argument('--checks', default=','.join(ALL))
ap.add_argument('--seeds', default='1')
ap.add_argument('--tier', default='quick')
ap.add_argument('--primary', default=None, help='property the change was written against (run at full scale)')
ap.add_argument('--others-scale', default='0.3')
a = ap.parse_args()
d = os.path.abspath(a.dir)
meta_path = os.path.join(d, 'meta.json')
meta = json.load(open(meta_path)) if os.path.exists(meta_path) else {}
tmp = tempfile.mkdtemp(prefix='seed-', dir='/tmp')
try:
    dst = os.path.join(tmp, 'repo')
    shutil.copytree('/repo', dst, ignore=shutil.ignore_patterns('.git', 'build', 'dist', '*.egg-info', '__pycache__', '_seed'))
    os.makedirs(os.path.join(dst, '_seed'))
    shutil.copy(os.path.join(d, 'demo.py'), os.path.join(dst, '_seed', 'demo.py'))

    def demo():
        r = subprocess.run(['/venv/bin/python', '_seed/demo.py'], cwd=dst, capture_output=True, text=True, timeout=600)
        return r.returncode, (r.stdout + r.stderr).strip().splitlines()[-1:] or ['']
    rc0, out0 = demo()
    r = subprocess.run(['patch', '-p1', '-s', '-i', os.path.join(d, 'patch.diff')], cwd=dst, capture_output=True, text=True)
    if r.returncode:
        print('PATCH FAILED', r.stdout, r.stderr)
        sys.exit(3)
    rc1, out1 = demo()
    s = subprocess.run(['/venv/bin/python', '-m', 'pytest', '-q', '-p', 'no:cacheprovider', '--timeout=900'], cwd=dst, capture_output=True, text=True)
    suite = s.stdout.strip().splitlines()[-1] if s.stdout.strip() else s.stderr[-200:]
    print('demo original rc=%d %s | demo changed rc=%d %s | suite: %s' % (rc0, out0, rc1, out1, suite))
    confirmed = rc0 == 0 and rc1 != 0 and ' passed' in suite and 'failed' not in suite
    results = meta.get('checks', {})
    for pid in a.checks.split(','):
        for seed in a.seeds.split(','):
            env = dict(os.environ, DROOP_REPO=dst, VERIF_SEED=seed)
            t0 = time.time()
            primary = a.primary or meta.get('property') or os.path.basename(d).split('-')[-1]
            scale = '1' if pid == primary else a.others_scale
            r = subprocess.run(['./check', pid, '--no-evidence', '--tier', a.tier, '--scale', scale], cwd='/verif', env=env, capture_output=True, text=True)
            sigs = [l.strip()[4:].split(' count=')[0] for l in r.stdout.splitlines() if l.startswith('   sig=')]
            verdict = {0: 'quiet', 1: 'VIOLATION', 2: 'harness-error'}.get(r.returncode, str(r.returncode))
            results['%s@%s' % (pid, seed)] = dict(verdict=verdict, sigs=sigs[:6], wall_s=round(time.time() - t0, 1), scale=scale)
            print('  %s seed=%s %s %s' % (pid, seed, verdict, sigs[:3]))
            if r.returncode == 2:
                print(r.stdout[-800:])
    meta.update(confirmed=confirmed, demo_original_rc=rc0, demo_changed_rc=rc1, suite_with_change=suite, checks=results,
                detected_by=sorted(set(k.split('@')[0] for k, v in results.items() if v['verdict'] == 'VIOLATION')))
    json.dump(meta, open(meta_path, 'w'), indent=1, sort_keys=True)
    print('confirmed=%s detected_by=%s' % (confirmed, meta['detected_by']))
finally:
    shutil.rmtree(tmp, ignore_errors=True)
