#!/bin/sh
# evaluate every seeded change that has no check matrix yet (or all with --force)
cd "$(dirname "$0")/.." || exit 2
for d in seeded/*/; do
  d=${d%/}
  if [ "$1" = "--force" ] || ! grep -q '"checks"' $d/meta.json 2>/dev/null; then
    echo "=== $d"; python3 tools/seed_eval.py $d
  fi
done
