#!/bin/sh
# re-run, for every seeded change, the quick check of the property it was written against (full scale, seed 1, no shrinking)
# against a scratch copy with the patch applied; one line per change.  usage: tools/seed_regress.sh [name-glob]
cd "$(dirname "$0")/.." || exit 2
for d in seeded/${1:-*}/; do
  d=${d%/}; n=$(basename $d); p=${n#*-}
  [ -f $d/patch.diff ] || continue
  out=$(python3 tools/mut.py --patch $d/patch.diff -- $p 2>&1 | grep -E "^$p seed" | head -1)
  echo "$n $out"
done
