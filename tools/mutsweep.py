#!/usr/bin/env python3
"""Systematic mutation sweep (sensitivity campaign, section 8/10.5 of DESIGN.md).

  tools/mutsweep.py gen OUT.jsonl                 enumerate AST-level single-site mutants of /repo/droop
  tools/mutsweep.py suite IN.jsonl OUT.jsonl [-j N]   keep the mutants the unedited pytest suite does NOT kill
  tools/mutsweep.py checks IN.jsonl OUT.jsonl [-j N] [--scale S]   run the relevant quick checks against each survivor

Each mutant is {'id', 'file', 'line', 'col', 'op', 'old', 'new'}; it is applied to a scratch copy under /tmp
(removed afterwards); /repo is never touched.
"""
import argparse
import ast
import json
import multiprocessing
import os
import shutil
import subprocess
import sys
import tempfile

REPO = '/repo'
SKIP_FUNCS = {'helps', 'makehelp', 'usage', 'tag', 'info', '__repr__', 'compare'}

RELEVANT = {
    'values/fixed.py': ['C12', 'C13', 'C14', 'C20', 'C03', 'C06'],
    'values/guarded.py': ['C13', 'C14', 'C20', 'C10', 'C07'],
    'values/rational.py': ['C12', 'C14', 'C20', 'C13'],
    'values/__init__.py': ['C17', 'C20'],
    'profile.py': ['C15', 'C16', 'C10', 'C11'],
    'options.py': ['C17', 'C20'],
    'record.py': ['C18', 'C19', 'C14', 'C10'],
    'election.py': ['C01', 'C19', 'C20', 'C10', 'C18', 'C06'],
    'candidate.py': ['C18', 'C09', 'C01', 'C06', 'C08'],
    'candidates.py': ['C07', 'C11', 'C18', 'C03', 'C10'],
    'rules/electionmethods.py': ['C18', 'C08', 'C02'],
    'rules/wigm.py': ['C01', 'C02', 'C04', 'C06', 'C07', 'C09', 'C13', 'C03', 'C05'],
    'rules/wigm_prf.py': ['C03', 'C01', 'C02', 'C04', 'C06', 'C07', 'C09', 'C05'],
    'rules/cfer.py': ['C03', 'C01', 'C02', 'C04', 'C06', 'C07', 'C09', 'C05'],
    'rules/scotland.py': ['C03', 'C01', 'C02', 'C04', 'C06', 'C07', 'C09', 'C05'],
    'rules/mpls.py': ['C03', 'C01', 'C02', 'C04', 'C06', 'C07', 'C09', 'C18'],
    'rules/meek.py': ['C08', 'C01', 'C02', 'C04', 'C07', 'C09', 'C13', 'C05', 'C10'],
    'rules/meek_prf.py': ['C03', 'C08', 'C01', 'C02', 'C04', 'C07', 'C09'],
    'rules/qpq.py': ['C03', 'C01', 'C02', 'C07', 'C09', 'C18', 'C04'],
    '__init__.py': ['C01', 'C17'],
    'common.py': ['C01'],
}

CMP = {ast.Lt: '<=', ast.LtE: '<', ast.Gt: '>=', ast.GtE: '>', ast.Eq: '!=', ast.NotEq: '=='}
CMPTXT = {ast.Lt: '<', ast.LtE: '<=', ast.Gt: '>', ast.GtE: '>=', ast.Eq: '==', ast.NotEq: '!='}


def gen(out):
    muts = []
    for root, _, files in os.walk(os.path.join(REPO, 'droop')):
        for fn in sorted(files):
            if not fn.endswith('.py'):
                continue
            path = os.path.join(root, fn)
            rel = os.path.relpath(path, os.path.join(REPO, 'droop'))
            src = open(path).read()
            lines = src.split('\n')
            tree = ast.parse(src)
            skip_ranges = []
            for node in ast.walk(tree):
                if isinstance(node, (ast.FunctionDef,)) and node.name in SKIP_FUNCS:
                    skip_ranges.append((node.lineno, node.end_lineno))

            def skipped(n):
                return any(a <= n.lineno <= b for a, b in skip_ranges)

            def seg(n):
                return ast.get_source_segment(src, n)

            def add(node, op, old, new, lineno=None, col=None, end_col=None):
                muts.append(dict(file=rel, line=lineno or node.lineno, col=col if col is not None else node.col_offset,
                                 end_line=getattr(node, 'end_lineno', node.lineno) if lineno is None else lineno,
                                 end_col=end_col if end_col is not None else node.end_col_offset, op=op, old=old, new=new))
            for node in ast.walk(tree):
                if not hasattr(node, 'lineno') or skipped(node):
                    continue
                if isinstance(node, ast.Compare) and len(node.ops) == 1 and type(node.ops[0]) in CMP and node.lineno == node.end_lineno:
                    left, right = node.left, node.comparators[0]
                    # operator text lies between left and right
                    line = lines[node.lineno - 1]
                    mid = line[left.end_col_offset:right.col_offset]
                    t = CMPTXT[type(node.ops[0])]
                    if mid.strip() == t:
                        i = left.end_col_offset + mid.index(t)
                        add(node, 'cmp', t, CMP[type(node.ops[0])], node.lineno, i, i + len(t))
                elif isinstance(node, ast.BoolOp) and node.lineno == node.end_lineno:
                    a, b = node.values[0], node.values[1]
                    line = lines[node.lineno - 1]
                    mid = line[a.end_col_offset:b.col_offset]
                    t = 'and' if isinstance(node.op, ast.And) else 'or'
                    if mid.strip() == t:
                        i = a.end_col_offset + mid.index(t)
                        add(node, 'bool', t, 'or' if t == 'and' else 'and', node.lineno, i, i + len(t))
                elif isinstance(node, ast.BinOp) and isinstance(node.op, (ast.Add, ast.Sub)) and node.lineno == node.end_lineno:
                    line = lines[node.lineno - 1]
                    mid = line[node.left.end_col_offset:node.right.col_offset]
                    t = '+' if isinstance(node.op, ast.Add) else '-'
                    if mid.strip() == t and not isinstance(node.left, ast.Constant) or (mid.strip() == t and isinstance(node.left.value if isinstance(node.left, ast.Constant) else 0, int)):
                        i = node.left.end_col_offset + mid.index(t)
                        add(node, 'arith', t, '-' if t == '+' else '+', node.lineno, i, i + 1)
                elif isinstance(node, ast.Constant) and isinstance(node.value, bool):
                    add(node, 'const', str(node.value), str(not node.value))
                elif isinstance(node, ast.Constant) and isinstance(node.value, int) and not isinstance(node.value, bool) and node.value in (0, 1, 2):
                    add(node, 'const', str(node.value), str(node.value + 1))
                elif isinstance(node, ast.Constant) and node.value in ('up', 'down'):
                    add(node, 'round', repr(node.value), repr('down' if node.value == 'up' else 'up'))
                elif isinstance(node, ast.UnaryOp) and isinstance(node.op, ast.USub) and isinstance(node.operand, ast.Constant) and node.operand.value == 1:
                    add(node, 'const', '-1', '0')
                elif isinstance(node, (ast.Expr, ast.AugAssign)) and node.lineno == node.end_lineno and not (isinstance(node, ast.Expr) and isinstance(node.value, ast.Constant)):
                    add(node, 'delete', seg(node), 'pass')
                elif isinstance(node, ast.Assign) and node.lineno == node.end_lineno and isinstance(node.targets[0], ast.Attribute):
                    add(node, 'delete', seg(node), 'pass')
                elif isinstance(node, (ast.Break, ast.Continue)):
                    add(node, 'delete', seg(node), 'pass')
                elif isinstance(node, ast.If) and node.test.lineno == node.test.end_lineno and not skipped(node):
                    t = node.test
                    add(t, 'negate', seg(t), 'not (%s)' % seg(t))
    for i, m in enumerate(muts):
        m['id'] = 'M%04d' % i
    with open(out, 'w') as f:
        for m in muts:
            f.write(json.dumps(m) + '\n')
    print(len(muts), 'mutants')


def apply(m, dst):
    p = os.path.join(dst, 'droop', m['file'])
    lines = open(p).read().split('\n')
    ln = lines[m['line'] - 1]
    if m['end_line'] != m['line']:
        return False
    if ln[m['col']:m['end_col']] != m['old']:
        return False
    lines[m['line'] - 1] = ln[:m['col']] + m['new'] + ln[m['end_col']:]
    open(p, 'w').write('\n'.join(lines))
    return True


def scratch(m):
    tmp = tempfile.mkdtemp(prefix='msw-', dir='/tmp')
    dst = os.path.join(tmp, 'repo')
    shutil.copytree(REPO, dst, ignore=shutil.ignore_patterns('.git', 'build', 'dist', '*.egg-info', '__pycache__', 'out'))
    ok = apply(m, dst)
    return tmp, dst, ok


def suite_one(m):
    tmp, dst, ok = scratch(m)
    try:
        if not ok:
            return dict(m, suite='unapplied')
        try:
            r = subprocess.run(['/venv/bin/python', '-m', 'pytest', '-q', '-x', '-p', 'no:cacheprovider', '--timeout=120'], cwd=dst,
                               capture_output=True, text=True, timeout=600)
            last = r.stdout.strip().splitlines()[-1] if r.stdout.strip() else 'no output'
            passed = r.returncode == 0
        except subprocess.TimeoutExpired:
            last, passed = 'timeout', False
        return dict(m, suite='passes' if passed else 'killed', suite_line=last[:80])
    finally:
        shutil.rmtree(tmp, ignore_errors=True)


def checks_one(args):
    m, scale, nproc = args
    tmp, dst, ok = scratch(m)
    try:
        res = {}
        env = dict(os.environ, DROOP_REPO=dst, VERIF_SEED='1', VERIF_NPROC=str(nproc))
        killed_by = []
        for pid in RELEVANT.get(m['file'], ['C01']):
            try:
                r = subprocess.run(['./check', pid, '--no-evidence', '--no-shrink', '--scale', str(scale)], cwd='/verif', env=env,
                                   capture_output=True, text=True, timeout=900)
                rc = r.returncode
                sigs = [l.strip()[4:].split(' count=')[0] for l in r.stdout.splitlines() if l.startswith('   sig=')][:3]
            except subprocess.TimeoutExpired:
                rc, sigs = 124, []
            res[pid] = dict(rc=rc, sigs=sigs)
            if rc == 1:
                killed_by.append(pid)
                break           # one detecting check is enough for the kill decision
        return dict(m, checks=res, killed_by=killed_by)
    finally:
        shutil.rmtree(tmp, ignore_errors=True)


def main():
    ap = argparse.ArgumentParser()
    ap.add_argument('cmd')
    ap.add_argument('a')
    ap.add_argument('b', nargs='?')
    ap.add_argument('-j', type=int, default=8)
    ap.add_argument('--scale', type=float, default=0.15)
    ap.add_argument('--nproc', type=int, default=2)
    ap.add_argument('--limit', type=int, default=0)
    a = ap.parse_args()
    if a.cmd == 'gen':
        gen(a.a)
        return
    muts = [json.loads(l) for l in open(a.a)]
    done = set()
    if os.path.exists(a.b):
        done = set(json.loads(l)['id'] for l in open(a.b))
    todo = [m for m in muts if m['id'] not in done]
    if a.cmd == 'checks':
        todo = [m for m in todo if m.get('suite') == 'passes']
    if a.limit:
        todo = todo[:a.limit]
    with multiprocessing.Pool(a.j) as pool, open(a.b, 'a') as out:
        it = pool.imap_unordered(suite_one, todo) if a.cmd == 'suite' else pool.imap_unordered(checks_one, [(m, a.scale, a.nproc) for m in todo])
        for k, r in enumerate(it):
            out.write(json.dumps(r) + '\n')
            out.flush()
            if k % 25 == 0:
                print(k, len(todo), r['id'], r.get('suite') or r.get('killed_by'), flush=True)


if __name__ == '__main__':
    main()
