#!/usr/bin/env python3
"regenerate MANIFEST.json from the property modules (keeps it valid at all times)"
import importlib
import json
import os
import sys

HERE = os.path.dirname(os.path.dirname(os.path.abspath(__file__)))
sys.path.insert(0, HERE)

SETUP = ("/venv/bin/python -c 'import hypothesis' 2>/dev/null || "
         "/venv/bin/pip install --no-index --find-links /opt/veriftools/wheels --target /verif/.deps hypothesis sortedcontainers attrs; "
         "/venv/bin/python -c 'import sys; sys.path.append(\"/verif/.deps\"); import atheris' 2>/dev/null || "
         "/venv/bin/pip install --no-index --find-links /opt/veriftools/wheels --target /verif/.deps atheris || true; "
         "/venv/bin/python -c 'import sys; sys.path.append(\"/verif/.deps\"); import hypothesis; print(\"hypothesis\", hypothesis.__version__)'")

ALL = ['C%02d' % i for i in range(1, 21)]


def main():
    checks = []
    na = []
    for pid in ALL:
        path = os.path.join(HERE, 'vf', 'props', pid + '.py')
        if not os.path.exists(path):
            na.append(dict(property_id=pid, reason='check not built yet (generated-input search is applicable; see DESIGN.md section 5)'))
            continue
        m = importlib.import_module('vf.props.' + pid)
        if getattr(m, 'NOT_CLAIMED', None):
            na.append(dict(property_id=pid, reason=m.NOT_CLAIMED))
            continue
        c = dict(
            property_id=pid,
            quick_cmd='./check %s --tier quick' % pid,
            thorough_cmd='./check %s --tier thorough' % pid,
            evidence_file='evidence/%s.json' % pid,
            replay_cmd_template='./check %s --replay {path}' % pid,
            engine='vf',
            level_claimed=dict(category=m.LEVEL, text=m.LEVEL_TEXT, design_ref='DESIGN.md section 5, ' + pid),
            level_note=m.LEVEL_NOTE,
            technique=m.TECHNIQUE,
        )
        checks.append(c)
    man = dict(
        version=1,
        setup_cmd=SETUP,
        hooks=dict(guard='DROOP_VERIF',
                   enable='no source hooks are needed: the harness wraps Election.logAction/prog on instances and uses sys.settrace from outside',
                   baseline_off_cmd='cd /repo && /venv/bin/python -m pytest -ra -q -p no:cacheprovider --timeout=900 --continue-on-collection-errors',
                   source_commits=[], add_only=True),
        engines=[dict(name='vf', path='vf/', serves_properties=[c['property_id'] for c in checks],
                      kind_free_text='Hypothesis-driven generated search (16 shards), explicit oracles, collect-then-shrink, JSON replays')],
        checks=checks,
        not_applicable=na,
        notes='All checks: cwd=/verif, VERIF_SEED honoured, exit 0/1/2 per DESIGN.md section 2; known findings in known_findings.json.',
    )
    with open(os.path.join(HERE, 'MANIFEST.json'), 'w') as f:
        json.dump(man, f, indent=1)
    try:
        import jsonschema
        jsonschema.validate(man, json.load(open('/root/.vp/MANIFEST.schema.json')))
        print('MANIFEST valid;', len(checks), 'checks')
    except ImportError:
        print('MANIFEST written (jsonschema not importable here);', len(checks), 'checks')


main()
