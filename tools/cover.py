#!/usr/bin/env python3
"which droop lines do the generators reach? (diagnostic; single process, a few hundred cases per property)"
import sys, os
sys.path.insert(0, os.path.dirname(os.path.dirname(os.path.abspath(__file__))))
import coverage
cov = coverage.Coverage(source=['/repo/droop'], data_file=None)
cov.start()
import vf
from vf.run import load_prop
import hypothesis
from hypothesis import given, settings, HealthCheck, Phase
n = int(sys.argv[1]) if len(sys.argv) > 1 else 300
for pid in ['C%02d' % i for i in range(1, 20)]:
    prop = load_prop(pid)
    nn = 6 if pid == 'C19' else n
    @hypothesis.seed(7)
    @settings(max_examples=nn, database=None, deadline=None, suppress_health_check=list(HealthCheck), phases=[Phase.generate])
    @given(prop.strategy('quick'))
    def t(case):
        prop.check(case)
    t()
    print(pid, 'done', file=sys.stderr)
cov.stop()
cov.report(show_missing=True, skip_covered=False)
