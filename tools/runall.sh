#!/bin/sh
# run every registered quick check at the given seeds; print one line per run
cd "$(dirname "$0")/.." || exit 2
for seed in ${@:-1}; do
  for p in C01 C02 C03 C04 C05 C06 C07 C08 C09 C10 C11 C12 C13 C14 C15 C16 C17 C18 C19 C20; do
    out=$(VERIF_SEED=$seed ./check $p --no-evidence 2>&1); rc=$?
    echo "$p seed=$seed rc=$rc $(echo "$out" | grep -E '^C[0-9]+ quick' | sed 's/.*: //') $(echo "$out" | grep -c '^VIOLATION') viol $(echo "$out" | grep -c '^KNOWN') known"
    [ $rc -ne 0 ] && echo "$out" | grep -E -A2 'VIOLATION|HARNESS' | head -20
  done
done
