#!/usr/bin/env python3
"print the DESIGN 10.5 table rows (markdown) for the seeded changes whose directory names start with the given prefixes"
import json
import os
import sys

HERE = os.path.dirname(os.path.dirname(os.path.abspath(__file__)))
for name in sorted(os.listdir(os.path.join(HERE, 'seeded'))):
    p = os.path.join(HERE, 'seeded', name, 'meta.json')
    if not os.path.exists(p) or not name.startswith(tuple(sys.argv[1:] or [''])):
        continue
    m = json.load(open(p))
    print('| %s | %s | %s | %s | %s |' % (name, m.get('property'), m.get('change'), m.get('needs'), ', '.join(m.get('detected_by', []))))
