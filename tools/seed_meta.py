#!/usr/bin/env python3
"fill the descriptive fields of seeded/*/meta.json (property, origin, what the change needs in order to manifest, what was run)"
import json
import os

HERE = os.path.dirname(os.path.dirname(os.path.abspath(__file__)))
NEEDS = {
 'S01-C01': ("cfer.py batchDefeat: cap on the defeat set off by one (cands[t:] instead of cands[t+1:])",
             "rule cfer-batch, >= 3 seats with >= 2 still open, more than a quota of votes already exhausted, a defeat set passing (k)(3)(C/D)"),
 'S02-C02': ("wigm.py: surplus re-weighting uses V.muldiv(..., round='up')",
             "rule wigm with fixed / integer / guarded guard=0 arithmetic (round ignored by guarded g>0 and rational) and an inexact transfer value"),
 'S03-C03': ("scotland.py breakTie: prior-stage search runs oldest stage first",
             "scotland, a tie at stage >= 3 whose earliest and most recent differing stages disagree"),
 'S04-C04': ("meek.py calcQuota (non-exact branch) uses the ballot count instead of the votes still credited",
             "meek/warren with fixed (or guard=0) arithmetic after votes have exhausted"),
 'S05-C05': ("wigm_prf.py batchDefeat: pending surpluses dropped from the sure-loser test",
             "wigm-prf-batch, >= 2 seats, a pending surplus larger than the gap between a low group and the next candidate"),
 'S06-C06': ("scotland.py: fused muldiv replaced by truncating multiply then divide",
             "scotland, second or later re-weighting of a ballot (fractional value x fractional surplus)"),
 'S07-C07': ("scotland.py breakTie: iterates E.rounds oldest first",
             "same trigger as S03 (written independently against C07)"),
 'S08-C08': ("meek.py distributeVotes, equal-rank branch: residual tracked per ballot instead of per ballot x multiplier",
             "meek/warren, an equal-ranking ballot line with multiplier > 1 and non-zero residual weight"),
 'S09-C09': ("wigm.py zero-batch guard uses eligible - nSeats instead of hopeful - seatsLeft",
             "wigm defeat_batch=zero, >= 2 seats left, an earlier single defeat, then a zero batch that is now too large"),
 'S10-C10': ("meek.py: first-preference share of equal-ranked lines computed as multiplier / n instead of (1/n) * multiplier",
             "meek/warren, fixed arithmetic, a top equal rank of 3 (6, 7...) candidates, multiplier not divisible by it, identical ballots split differently"),
 'S11-C11': ("scotland.py breakTie: resolves by prior stage as soon as tallies differ, taking byVote()[direction] (secondary key = candidate number)",
             "scotland, a tie among >= 3 candidates whose most recent differing stage has two of them sharing the extreme tally"),
 'S12-C12': ("fixed.py muldiv: 'rem > 0 and round == up'",
             "Fixed.muldiv with round='up', a negative divisor and an inexact result"),
 'S13-C13': ("guarded.py __cmp__ rewritten with doubled signed difference; '-geps' compares equal",
             "guard >= 1 and self - other == -geps exactly"),
 'S14-C14': ("guarded.py __str__: sign taken from the stored value instead of the rounded one",
             "guarded, a negative value that rounds half-up to zero at the display digits ('-0.0000')"),
 'S15-C15': ("profile.py BallotLine: iterates the rank list it removes from",
             "two withdrawn candidates adjacent inside one equal-rank group"),
 'S16-C16': ("profile.py: range check of '-n' withdrawals deleted",
             "a '-n' token with n > number of candidates"),
 'S17-C17': ("options.py getopt: 'file_options.get(name) or default'",
             "an option given only in the ballot file with value 0 / false / no and a truthy default"),
 'S18-C18': ("mpls.py epilogue: one combined 'Defeat remaining candidates' action logged before the states change",
             "mpls, count ending with hopeful candidates left"),
 'S19-C19': ("record.py action(): the action dict is appended before the rule hook adds its fields",
             "an interrupt between the append and the end of the rule's action() hook (about 1 % of the crash points)"),
 'S20-C20': ("guarded.py initialize(): display scale factors cached on precision+guard only",
             "an earlier guarded election with the same precision+guard and a different display"),
 'R01-C01': ("mpls.py epilogue: 'hopeful == seatsLeft' instead of '<='",
             "mpls with [undeclared ...] write-ins leaving fewer declared candidates than seats, one declared candidate below the threshold"),
 'R02-C02': ("meek.py distributeVotes: E.residual recomputed as the sum over E.ballots only (equal-ranking ballots live in E.ballotsEqual)",
             "meek/warren, an equal-ranking ballot that loses weight to the residual"),
 'R03-C03': ("cfer.py batchDefeat: total surplus dropped from condition (k)(3)(C)",
             "cfer-batch, >= 3 seats, >= 5 candidates, a pending surplus, and sum(set) < threshold - top <= sum(set) + surplus"),
 'R04-C04': ("cfer.py election step filters with hasSurplus (vote > threshold) instead of hasQuota",
             "cfer/cfer-batch, a tally landing exactly on the fractional threshold after a transfer (smallest natural case > 300 ballots)"),
 'R06-C06': ("wigm.py: re-weighting and transfer loop skipped when the surplus is zero",
             "wigm with integer / fixed / guard=0 arithmetic (usually integer_quota) and a winner exactly on the quota; tallies unchanged, only ballot positions/values wrong"),
 'R07-C07': ("candidates.py byVote: secondary sort key tieOrder instead of ballot order",
             "two equal-tally candidates elected in one stage (or in one batch) with a tie order that differs from ballot order; no tie is logged"),
 'R08-C08': ("meek.py: keep factor of the excluded candidate zeroed only on the omega path",
             "meek/warren, an exclusion after an 'Iterate (stable)' end (fixed or guard=0 arithmetic with a fine omega)"),
 'R09-C09': ("cfer.py 'Elect all' shortcut counts all candidates including withdrawn ones",
             "cfer/cfer-batch, withdrawn candidates leaving exactly as many candidates as seats, one of them below the threshold"),
 'R10-C10': ("profile.py tokenizer: quote mode entered while inside a /* */ comment",
             "a block comment containing a token that starts with a double quote"),
 'R11-C11': ("profile.py BallotLine: empty ranks removed from the list being iterated",
             "two withdrawn candidates adjacent on a ballot (at its head, or forming the whole ballot)"),
 'R12-C12': ("rational.py: reversed operators no longer wrapped (dedented out of the loop) - int (op) Rational returns a Fraction",
             "rational arithmetic with a Python int or Fraction as the LEFT operand of + - * /"),
 'R13-C13': ("guarded.py div, guard==0 branch: round-up skipped when the truncated quotient is 0",
             "guard=0, round='up', a non-zero dividend whose quotient truncates to 0 (in counts: a huge block of bullet votes relative to 10^precision)"),
 'R14-C14': ("rational.py __str__: round() (half to even) instead of half-up",
             "rational arithmetic, a value exactly on half a display unit with an even lower neighbour (small display, dyadic values)"),
 'R15-C15': ("profile.py tokenizer: '#' recognised as a line comment while inside a /* */ comment",
             "a block comment containing a token that starts with '#', with the closing */ later on the same line"),
 'R16-C16': ("profile.py getCid: str.isdigit() instead of the \\d+ regex, then int() fails on non-decimal unicode digits",
             "a candidate position (ranking, '=' group, [tie]/[withdrawn]/[undeclared]) holding a token such as the superscript two"),
 'R17-C17': ("options.py setopt: the value is read before the force layer is updated, so a forcing setopt returns the caller's value",
             "wigm with arithmetic=integer and a non-zero precision option: the count runs with that precision while the record says 0 is forced"),
 'R18-C18': ("record.py report: zero-vote group selected by truthiness instead of '== V0'",
             "guarded arithmetic, a defeated candidate holding a non-zero tally below the comparison tolerance: it vanishes from the report"),
 'R19-C19': ("record.py _fill: filled = True set first",
             "an interrupt while the header keys are being stored inside the first begin/round action (3-6 % of the crash points of a tiny election)"),
 'R20-C20': ("meek.py dist(): equal-rank lists of the profile pruned in place",
             "meek/warren, an equal-ranking ballot whose group loses a defeated member, then the SAME ElectionProfile object counted again"),
 'R05-C05': ("meek.py iterate(): distributeVotes() indented into the 'if V.exact:' progress block",
             "meek/warren with fixed or guard=0 arithmetic and >= 2 seats: ballots are no longer redistributed between keep-factor updates"),

}
for name, (what, needs) in NEEDS.items():
    d = os.path.join(HERE, 'seeded', name)
    if not os.path.isdir(d):
        continue
    p = os.path.join(d, 'meta.json')
    m = json.load(open(p)) if os.path.exists(p) else {}
    m.update(property=name.split('-')[1], change=what, needs=needs,
             origin='independent sub-agent given only the property text and a scratch worktree of /repo (nothing from /verif)' + (
                 '; second round: also told which change had already been proposed for the property, and asked for a different, subtler one' if name.startswith('R') else ''),
             ran='tools/seed_eval.py: scratch copy of /repo; demo.py on the original (must pass) and on the changed copy (must fail); the unedited '
                 'pytest suite on the changed copy (must pass); then every quick check with DROOP_REPO pointing at the changed copy '
                 '(the property\'s own check at full scale, the others at the scale recorded per check)')
    json.dump(m, open(p, 'w'), indent=1, sort_keys=True)
print('ok')
