#!/usr/bin/env python3
"""sensitivity helper: apply a textual mutation to a scratch copy of /repo, optionally run the
repo test suite on it, run checks against it (DROOP_REPO), report, remove the copy.

usage: tools/mut.py [--suite] [--seeds 1,2,3] [--scale X] FILE OLD NEW -- C01 [C02 ...]
   or: tools/mut.py [--suite] --patch PATCHFILE -- C01 ...
"""
import argparse
import os
import shutil
import subprocess
import sys
import tempfile

ap = argparse.ArgumentParser()
ap.add_argument('--suite', action='store_true')
ap.add_argument('--seeds', default='1')
ap.add_argument('--scale', default='1')
ap.add_argument('--tier', default='quick')
ap.add_argument('--patch')
ap.add_argument('--keep', action='store_true')
ap.add_argument('rest', nargs='*')
a = ap.parse_args()
rest = a.rest
if '--' in rest:
    i = rest.index('--')
    spec, props = rest[:i], rest[i + 1:]
else:
    spec, props = rest[:3] if not a.patch else [], rest[3:] if not a.patch else rest
tmp = tempfile.mkdtemp(prefix='mut-', dir='/tmp')
try:
    dst = os.path.join(tmp, 'repo')
    shutil.copytree('/repo', dst, ignore=shutil.ignore_patterns('.git', 'build', 'dist', '*.egg-info', '__pycache__'))
    if a.patch:
        r = subprocess.run(['patch', '-p1', '-s', '-i', os.path.abspath(a.patch)], cwd=dst)
        if r.returncode:
            print('PATCH FAILED')
            sys.exit(3)
    else:
        f, old, new = spec
        p = os.path.join(dst, f)
        s = open(p).read()
        if s.count(old) != 1:
            print('MUTATION SITE not unique: %d occurrences' % s.count(old))
            sys.exit(3)
        open(p, 'w').write(s.replace(old, new))
    if a.suite:
        r = subprocess.run(['/venv/bin/python', '-m', 'pytest', '-q', '-p', 'no:cacheprovider', '-x', '--timeout=900'],
                           cwd=dst, capture_output=True, text=True)
        print('SUITE:', r.stdout.strip().splitlines()[-1] if r.stdout.strip() else r.stderr[-300:])
    for pid in props:
        for seed in a.seeds.split(','):
            env = dict(os.environ, DROOP_REPO=dst, VERIF_SEED=seed)
            r = subprocess.run(['./check', pid, '--no-evidence', '--scale', a.scale, '--tier', a.tier], cwd='/verif', env=env,
                               capture_output=True, text=True)
            lines = [l for l in r.stdout.splitlines() if l.startswith(('VIOLATION', 'HARNESS', 'KNOWN')) or l.startswith('   sig=')]
            print('%s seed=%s exit=%d %s' % (pid, seed, r.returncode, 'DETECTED' if r.returncode == 1 else 'MISSED' if r.returncode == 0 else 'ERROR'))
            for l in lines[:8]:
                print('    ' + l[:220])
            if r.returncode == 2:
                print(r.stdout[-1500:], r.stderr[-1500:])
finally:
    if not a.keep:
        shutil.rmtree(tmp, ignore_errors=True)
